//! Struct containing an u8-array of C size to store bitwise boolean values

#![deny(unsafe_code)]
#![warn(missing_docs)]

use core::fmt::{Display, Formatter};

use crate::Version;

/// Values to keep last X bits of a u8
/// `KEEP_LAST[i]` equates `(1 << i) - 1`
///
/// # Example
/// ```rust
/// # pub const KEEP_LAST: [usize; 65] = [
/// #     0, 1, 3, 7, 15, 31, 63, 127, 255, 511, 1023, 2047, 4095, 8191, 16383,
/// #     32767, 65535, 131071, 262143, 524287, 1048575, 2097151, 4194303, 8388607,
/// #     16777215, 33554431, 67108863, 134217727, 268435455, 536870911,  1073741823,
/// #     2147483647, 4294967295, 8589934591, 17179869183, 34359738367, 68719476735,
/// #     137438953471, 274877906943, 549755813887, 1099511627775, 2199023255551,
/// #     4398046511103, 8796093022207, 17592186044415, 35184372088831,
/// #     70368744177663, 140737488355327, 281474976710655, 562949953421311,
/// #     1125899906842623, 2251799813685247, 4503599627370495, 9007199254740991,
/// #     18014398509481983, 36028797018963967, 72057594037927935,
/// #     144115188075855871, 288230376151711743, 576460752303423487,
/// #     1152921504606846975, 2305843009213693951, 4611686018427387903,
/// #     9223372036854775807, 18446744073709551615,
/// # ];
/// let mut b = 0b1010_1010;
/// assert_eq!(b & KEEP_LAST[3], 0b010)
/// ```
#[rustfmt::skip]
#[cfg(not(target_arch = "wasm32"))]
pub const KEEP_LAST: [usize; 65] = [
    0, 1, 3, 7, 15, 31, 63, 127, 255, 511, 1023, 2047, 4095, 8191, 16383,
    32767, 65535, 131_071, 262_143, 524_287, 1_048_575, 2_097_151, 4_194_303, 8_388_607,
    16_777_215, 33_554_431, 67_108_863, 134_217_727, 268_435_455, 536_870_911, 1_073_741_823,
    2_147_483_647, 4_294_967_295, 8_589_934_591, 17_179_869_183, 34_359_738_367, 68_719_476_735,
    137_438_953_471, 274_877_906_943, 549_755_813_887, 1_099_511_627_775, 2_199_023_255_551,
    4_398_046_511_103, 8_796_093_022_207, 17_592_186_044_415, 35_184_372_088_831,
    70_368_744_177_663, 140_737_488_355_327, 281_474_976_710_655, 562_949_953_421_311,
    1_125_899_906_842_623, 2_251_799_813_685_247, 4_503_599_627_370_495, 9_007_199_254_740_991,
    18_014_398_509_481_983, 36_028_797_018_963_967, 72_057_594_037_927_935,
    144_115_188_075_855_871, 288_230_376_151_711_743, 576_460_752_303_423_487,
    1_152_921_504_606_846_975, 2_305_843_009_213_693_951, 4_611_686_018_427_387_903,
    9_223_372_036_854_775_807, 18_446_744_073_709_551_615,
];

/// Values to keep last X bits of a u8
/// `KEEP_LAST[i]` equates `(1 << i) - 1`
#[rustfmt::skip]
#[cfg(target_arch = "wasm32")]
pub const KEEP_LAST: [usize; 33] = [
    0, 1, 3, 7, 15, 31, 63, 127, 255, 511, 1_023, 2_047, 4_095, 8_191, 16_383,
    32_767, 65_535, 131_071, 262_143, 524_287, 1_048_575, 2_097_151, 4_194_303, 8_388_607,
    16_777_215, 33_554_431, 67_108_863, 134_217_727, 268_435_455, 536_870_911, 1_073_741_823,
    2_147_483_647, 4_294_967_295,
];

/// `CompactQR` is a struct that contains a `Vec<u8>` to store boolean values as bits.
pub struct CompactQR {
    pub len: usize,
    pub data: Vec<u8>,
}

/// Returns a string visualization of the `CompactQR`. \
/// `CompactQR { len: 4, data: [0b1111_1010] }.to_string()` => `"1010"`
impl Display for CompactQR {
    fn fmt(&self, f: &mut Formatter<'_>) -> core::fmt::Result {
        let mut res = String::with_capacity(self.len);

        for i in 0..(self.data.capacity() / 8) {
            let nb = self.data[i];
            for j in 0..8 {
                if i * 8 + j >= self.len {
                    return f.write_str(&res);
                }

                let j = 7 - j;
                let c = if nb & (1 << j) == 0 { '0' } else { '1' };
                res.push(c);
            }
        }

        f.write_str(&res)
    }
}

#[allow(clippy::cast_possible_truncation)]
impl CompactQR {
    /// Instantiates a new `CompactQR`, should not be used, reduces performance.
    #[allow(dead_code)]
    pub const fn new() -> Self {
        CompactQR {
            len: 0,
            data: Vec::new(),
        }
    }

    pub fn from_version(version: Version) -> Self {
        let len = version.max_bytes();
        let data = vec![0; len * 8];

        CompactQR { len: 0, data }
    }

    /// Instantiates a new `CompactQR`, with a given length, expects the length to be a multiple of 8.
    #[allow(dead_code)]
    #[cfg(test)]
    pub fn with_len(data_length: usize) -> Self {
        let length = data_length / 8 + usize::from(data_length % 8 != 0);
        CompactQR {
            len: 0,
            data: vec![0; length],
        }
    }

    /// Increase the length of data to specified length.
    pub fn increase_len(&mut self, data_length: usize) {
        if data_length / 8 >= self.data.len() {
            self.data.resize(data_length / 8 + 1, 0);
        }
    }

    /// Instantiates a new `CompactQR` from an already created array
    pub fn from_array(data: &[u8], len: usize) -> Self {
        CompactQR {
            len,
            data: data.to_vec(),
        }
    }

    /// Returns `len`, length is the current number of bits / boolean values stored in the array.
    pub const fn len(&self) -> usize {
        self.len
    }

    /// Returns `data`, the array of bits.
    pub const fn get_data(&self) -> &Vec<u8> {
        &self.data
    }

    /// Pushes eight values in the `CompactQR`, if the array is not big enough, it will be resized.
    #[inline(always)]
    #[allow(dead_code)]
    pub fn push_u8(&mut self, bits: u8) {
        self.increase_len(self.len + 8);

        let right = self.len % 8;
        let first_idx = self.len / 8;

        if right == 0 {
            self.data[first_idx] = bits;
        } else {
            let left = 8 - right;
            self.data[first_idx] |= (bits >> right) & (KEEP_LAST[left] as u8);
            self.data[first_idx + 1] |= (bits & KEEP_LAST[right] as u8) << left;
        }

        self.len += 8;
    }

    /// Pushes the u8 array in the `CompactQR`, using the `push_u8` function. \
    /// If the array is not big enough, it will be resized.
    #[inline(always)]
    pub fn push_u8_slice(&mut self, slice: &[u8]) {
        self.increase_len(self.len + 8 * slice.len());

        for &u in slice {
            self.push_u8(u);
        }
    }

    /// Pushes `len` values to the `CompactQR`. \
    /// If the array is not big enough, it will be resized.
    #[inline(always)]
    pub fn push_bits(&mut self, bits: usize, len: usize) {
        self.increase_len(self.len + len);

        // Caps to max usize bits
        let bits = bits & KEEP_LAST[len];

        let rem_space = (8 - self.len % 8) % 8;
        let first = self.len / 8;

        if rem_space > len {
            self.data[first] |= (bits << (rem_space - len)) as u8;
            self.len += len;
            return;
        }

        if rem_space != 0 {
            self.data[first] |= ((bits >> (len - rem_space)) & KEEP_LAST[rem_space]) as u8;
            self.len += rem_space;
        }

        for i in (8..=len - rem_space).rev().step_by(8) {
            self.push_u8((bits >> (i - 8)) as u8);
        }

        let remaining = (len - rem_space) % 8;
        if remaining == 0 {
            return;
        }

        self.data[self.len / 8] += ((bits & KEEP_LAST[remaining]) as u8) << (8 - remaining);
        self.len += remaining;
    }

    /// Fills the `CompactQR`'s remaining space with `[236, 17]`.
    /// Expects the `CompactQR` `len` to be a multiple of 8.
    #[inline(always)]
    pub fn fill(&mut self) {
        const PAD_BYTES: [u8; 2] = [0b1110_1100, 0b0001_0001]; //[236, 17]

        #[cfg(debug_assertions)]
        assert_eq!(self.len % 8, 0);

        for (i, _) in (self.len..self.data.len()).step_by(8).enumerate() {
            let bits = PAD_BYTES[i % 2];
            self.push_u8(bits);
        }
    }
}
