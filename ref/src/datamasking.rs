//! Contains the HEIGHT functions that can alter `QRCode`
#![deny(unsafe_code)]
#![warn(missing_docs)]

use crate::module::ModuleType;
use crate::QRCode;

/// The different mask patterns. The mask pattern should only be applied to
/// the data and error correction portion of the QR code.
#[derive(Debug, Copy, Clone)]
pub enum Mask {
    /// QR code pattern n°0: `(x + y) % 2 == 0`.
    Checkerboard = 0,
    /// QR code pattern n°1: `y % 2 == 0`.
    HorizontalLines = 1,
    /// QR code pattern n°2: `x % 3 == 0`.
    VerticalLines = 2,
    /// QR code pattern n°3: `(x + y) % 3 == 0`.
    DiagonalLines = 3,
    /// QR code pattern n°4: `((x/3) + (y/2)) % 2 == 0`.
    LargeCheckerboard = 4,
    /// QR code pattern n°5: `(x*y)%2 + (x*y)%3 == 0`.
    Fields = 5,
    /// QR code pattern n°6: `((x*y)%2 + (x*y)%3) % 2 == 0`.
    Diamonds = 6,
    /// QR code pattern n°7: `((x+y)%2 + (x*y)%3) % 2 == 0`.
    Meadow = 7,
}

/// Mask function nb°**0**, `Mask::Checkerboard`.
fn mask_checkerboard(qr: &mut QRCode) {
    for row in 0..qr.size {
        for column in (row & 1..qr.size).step_by(2) {
            let module = &mut qr[row][column];
            if module.module_type() == ModuleType::Data {
                module.toggle();
            }
        }
    }
}

/// Mask function nb°**1**, `Mask::HorizontalLines`.
fn mask_horizontal(qr: &mut QRCode) {
    for row in (0..qr.size).step_by(2) {
        for column in 0..qr.size {
            let module = &mut qr[row][column];
            if module.module_type() == ModuleType::Data {
                module.toggle();
            }
        }
    }
}

/// Mask function nb°**2**, `Mask::VerticalLines`.
fn mask_vertical(qr: &mut QRCode) {
    for row in 0..qr.size {
        for column in (0..qr.size).step_by(3) {
            let module = &mut qr[row][column];
            if module.module_type() == ModuleType::Data {
                module.toggle();
            }
        }
    }
}

/// Mask function nb°**3**, `Mask::DiagonalLines`.
fn mask_diagonal(qr: &mut QRCode) {
    for row in 0..qr.size {
        let start = (3 - row % 3) % 3;
        for column in (start..qr.size).step_by(3) {
            let module = &mut qr[row][column];
            if module.module_type() == ModuleType::Data {
                module.toggle();
            }
        }
    }
}

/// Mask function nb°**4**, `Mask::LargeCheckerboard`.
fn mask_large_checkerboard(qr: &mut QRCode) {
    for row in 0..qr.size {
        let start = ((row >> 1) & 1) * 3; // ((row / 2) % 2) * 3;
        for column in (start..qr.size).step_by(6) {
            for i in column..core::cmp::min(qr.size, column + 3) {
                let module = &mut qr[row][i];
                if module.module_type() == ModuleType::Data {
                    module.toggle();
                }
            }
        }
    }
}

fn mask_5_6(qr: &mut QRCode, offset: &[(usize, usize)]) {
    for row in (0..qr.size).step_by(6) {
        for column in 0..qr.size {
            let module = &mut qr[row][column];
            if module.module_type() == ModuleType::Data {
                module.toggle();
            }
            let module = &mut qr[column][row];
            if module.module_type() == ModuleType::Data && (row % 6 != 0 || column % 6 != 0) {
                module.toggle();
            }
        }
    }

    for row in (0..qr.size).step_by(6) {
        for column in (0..qr.size).step_by(6) {
            for (y, x) in offset {
                if row + y >= qr.size || column + x >= qr.size {
                    continue;
                }

                let module = &mut qr[row + y][column + x];
                if module.module_type() == ModuleType::Data {
                    module.toggle();
                }
            }
        }
    }
}

/// Mask function nb°**5**, `Mask::Fields`.
fn mask_field(qr: &mut QRCode) {
    const OFFSETS: [(usize, usize); 4] = [(2, 3), (3, 2), (3, 4), (4, 3)];
    mask_5_6(qr, &OFFSETS);
}

/// Mask function nb°**6**, `Mask::Diamonds`.
fn mask_diamond(qr: &mut QRCode) {
    #[rustfmt::skip]
    const OFFSETS: [(usize, usize); 12] = [
        (1, 1), (1, 2), (2, 1), (2, 3),
        (2, 4), (3, 2), (3, 4), (4, 2),
        (4, 3), (4, 5), (5, 4), (5, 5)
    ];
    mask_5_6(qr, &OFFSETS);
}

/// Mask function nb°**7**, `Mask::Meadow`.
fn mask_meadow(qr: &mut QRCode) {
    for row in 0..qr.size {
        for column in row..qr.size {
            if (((row + column) % 2) + ((row * column) % 3)) % 2 != 0 {
                continue;
            }

            let module = &mut qr[row][column];
            if module.module_type() == ModuleType::Data {
                module.toggle();
            }

            let module = &mut qr[column][row];
            if column != row && module.module_type() == ModuleType::Data {
                module.toggle();
            }
        }
    }
}

/// Applies the function at `mask_nb` on `mat`
pub fn mask(qr: &mut QRCode, mask: Mask) {
    match mask {
        Mask::Checkerboard => mask_checkerboard(qr),
        Mask::HorizontalLines => mask_horizontal(qr),
        Mask::VerticalLines => mask_vertical(qr),
        Mask::DiagonalLines => mask_diagonal(qr),
        Mask::LargeCheckerboard => mask_large_checkerboard(qr),
        Mask::Fields => mask_field(qr),
        Mask::Diamonds => mask_diamond(qr),
        Mask::Meadow => mask_meadow(qr),
    }
}
