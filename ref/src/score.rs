//! `QRCode` need a way to define if they are readable, using a
//! scoring system. The lesser, the better.

#![warn(missing_docs)]

#[cfg(test)]
use crate::default::transpose;
use crate::module::{Module, ModuleType};
use crate::QRCode;

#[cfg(test)]
pub fn test_score_line(l: &[Module]) -> u32 {
    line(l).1
}

#[cfg(test)]
pub fn test_score_pattern(l: &[Module]) -> u32 {
    line(l).0
}

#[cfg(test)]
pub fn test_matrix_dark_modules(qr: &QRCode) -> u32 {
    dark_module_score(qr)
}

#[cfg(test)]
pub fn test_matrix_pattern_and_line(qr: &QRCode) -> (u32, u32, u32) {
    let transpose = transpose(qr);
    matrix_pattern_and_line(qr, &transpose)
}

#[cfg(test)]
pub fn test_matrix_score_squares(qr: &QRCode) -> u32 {
    matrix_score_squares(qr)
}

/// Computes scores for squares, any 2x2 square (black or white)
/// add 3 to the score
///
/// ### Opti:
/// We don't want to access the 4 squares each time, so we score the left most
/// ones and only fetch the next right ones
fn matrix_score_squares(qr: &QRCode) -> u32 {
    let mut square_score = 0;

    for i in 0..qr.size - 1 {
        let mut count_data = 2;

        let line1 = &qr[i];
        let line2 = &qr[i + 1];

        let mut buffer = 0u8;
        buffer |= u8::from(line1[0].value()) << 2;
        buffer |= u8::from(line2[0].value()) << 3;

        for j in 0..qr.size - 1 {
            buffer >>= 2;
            buffer |= u8::from(line1[j + 1].value()) << 2;
            buffer |= u8::from(line2[j + 1].value()) << 3;

            if line1[j + 1].module_type() != ModuleType::Data
                || line2[j + 1].module_type() != ModuleType::Data
            {
                count_data = 0;
            }

            if count_data >= 2 && (buffer == 0b1111 || buffer == 0b0000) {
                square_score += 3;
            }

            count_data += 1;
        }
    }

    square_score
}

/// Computes scores for both patterns (`0b10111010000` or `0b00001011101`)
///
/// ### Opti:
/// We convert the line to a u11 (supposedly) so comparing it to a pattern is
/// a simple comparison.
fn line(line: &[Module]) -> (u32, u32) {
    const PATTERN_LEN: usize = 7;

    let mut line_score = 0;
    let mut patt_score = 0;

    let mut count = 1;
    let mut current = !line[0].value();

    let mut buffer = 0;
    let mut count_data = 0;

    for &item in line {
        buffer = ((buffer << 1) | u16::from(item.value())) & 0b111_1111;
        count_data += 1;

        if item.value() != current {
            if count >= 5 {
                line_score += count - 2;
            }
            count = 0;
            current = item.value();
        }

        if item.module_type() != ModuleType::Data {
            if count >= 5 {
                line_score += count - 2;
            }

            count_data = 0;
            count = 0;
            continue;
        }

        if count_data >= PATTERN_LEN && buffer == 0b101_1101 {
            patt_score += 40;
        }

        count += 1;
    }

    if count >= 5 {
        line_score += count - 2;
    }

    (patt_score, line_score)
}

/// Converts the matrix to lines & columns and feed it to `score_line`
fn matrix_pattern_and_line(qr: &QRCode, qr_transpose: &QRCode) -> (u32, u32, u32) {
    let mut line_score = 0;
    let mut col_score = 0;
    let mut patt_score = 0;

    let n = qr.size;

    for i in 0..n {
        let l = line(&qr[i]);
        line_score += l.1;

        let c = line(&qr_transpose[i]);
        col_score += c.1;

        patt_score += l.0 + c.0;
    }

    (line_score, col_score, patt_score)
}

/// Computes the number of `ModuleType::Dark` modules
fn dark_module_score(qr: &QRCode) -> u32 {
    let n = qr.size;
    let dark_modules = qr.data[..n * n]
        .iter()
        .filter(|m| m.value() == Module::DARK)
        .count();

    // Full 5% steps between the dark ratio and 50%, in exact integer arithmetic. Flooring the
    // percentage first counted an exact 40% (or 20%) as one step less than an exact 60% (or 80%),
    // and indexed out of bounds for an all-dark matrix.
    let total = n * n;
    let twice = 2 * dark_modules;
    let deviation = if twice > total { twice - total } else { total - twice };
    (deviation * 10 / total * 10) as u32
}

/// Computes the score for the matrix
/// - `matrix_pattern_and_line`:
///   - 40 points for each [TFTTTFT] pattern (T: true / F: false)
///   - N - 2 points for each line with N consecutive modules of the same color (N >= 5)
/// - `matrix_score_squares`: 3 points for each 2x2 square (black or white)
/// - `dark_module_score`: 10 points for each 5% of dark modules away from 50%
pub fn score(qr: &QRCode, qr_transpose: &QRCode) -> u32 {
    let dark_score = dark_module_score(qr);
    let square_score = matrix_score_squares(qr);
    let (line_score, col_score, patt_score) = matrix_pattern_and_line(qr, qr_transpose);

    line_score + patt_score + col_score + dark_score + square_score
}
