//! Converts [`QRCode`] to SVG
//!
//! ```rust
//! use fast_qr::convert::ConvertError;
//! use fast_qr::convert::{svg::SvgBuilder, Builder, Shape};
//! use fast_qr::qr::QRBuilder;
//!
//! # fn main() -> Result<(), ConvertError> {
//! // QRBuilde::new can fail if content is too big for version,
//! // please check before unwrapping.
//! let qrcode = QRBuilder::new("https://example.com/")
//!     .build()
//!     .unwrap();
//!
//! let _svg = SvgBuilder::default()
//!     .shape(Shape::RoundedSquare)
//!     .to_file(&qrcode, "out.svg");
//!
//! #     std::fs::remove_file("out.svg");
//! #     Ok(())
//! # }
//! ```

use crate::{QRCode, Version};

use super::{Builder, Color, ImageBackgroundShape, ModuleFunction, Shape};

/// Builder for svg, can set shape, margin, background_color, dot_color
pub struct SvgBuilder {
    /// Command vector allows predefined or custom shapes
    /// The default is square, commands can be added using `.shape()`
    commands: Vec<ModuleFunction>,
    /// Commands can also have a custom color
    /// The default is `dot_color`, commands with specific colors can be
    /// added using `.shape_color()`
    command_colors: Vec<Option<Color>>,
    /// The margin for the svg, default is 4
    margin: usize,
    /// The background color for the svg, default is #FFFFFF
    background_color: Color,
    /// The color for each module, default is #000000
    dot_color: Color,

    // Image Embedding
    /// Image to embed in the svg, can be a path or a base64 string
    image: Option<String>,
    /// Background color for the image, default is #FFFFFF
    image_background_color: Color,
    /// Background shape for the image, default is square
    image_background_shape: ImageBackgroundShape,
    /// Size of the image (in module size), default is ~1/3 of the svg
    image_size: Option<f64>,
    /// Gap between the image and the border (in module size), default is calculated
    image_gap: Option<f64>,
    /// Position of the image, default is center
    image_position: Option<(f64, f64)>,
}

#[derive(Debug)]
/// Possible errors when converting to SVG
pub enum SvgError {
    /// Error while writing file
    #[cfg(not(feature = "wasm-bindgen"))]
    IoError(std::io::Error),
    /// Error while creating svg
    SvgError(String),
}

/// Creates a Builder instance
impl Default for SvgBuilder {
    fn default() -> Self {
        SvgBuilder {
            background_color: [255; 4].into(),
            dot_color: [0, 0, 0, 255].into(),
            margin: 4,
            commands: Vec::new(),
            command_colors: Vec::new(),

            // Image Embedding
            image: None,
            image_background_color: [255; 4].into(),
            image_background_shape: ImageBackgroundShape::Square,
            image_size: None,
            image_gap: None,
            image_position: None,
        }
    }
}

impl Builder for SvgBuilder {
    fn margin(&mut self, margin: usize) -> &mut Self {
        self.margin = margin;
        self
    }

    fn module_color<C: Into<Color>>(&mut self, dot_color: C) -> &mut Self {
        self.dot_color = dot_color.into();
        self
    }

    fn background_color<C: Into<Color>>(&mut self, background_color: C) -> &mut Self {
        self.background_color = background_color.into();
        self
    }

    fn shape(&mut self, shape: Shape) -> &mut Self {
        self.commands.push(*shape);
        self.command_colors.push(None);
        self
    }

    fn shape_color<C: Into<Color>>(&mut self, shape: Shape, color: C) -> &mut Self {
        self.commands.push(*shape);
        self.command_colors.push(Some(color.into()));
        self
    }

    fn image(&mut self, image: String) -> &mut Self {
        self.image = Some(image);
        self
    }

    fn image_background_color<C: Into<Color>>(&mut self, image_background_color: C) -> &mut Self {
        self.image_background_color = image_background_color.into();
        self
    }

    fn image_background_shape(
        &mut self,
        image_background_shape: ImageBackgroundShape,
    ) -> &mut Self {
        self.image_background_shape = image_background_shape;
        self
    }

    fn image_size(&mut self, image_size: f64) -> &mut Self {
        self.image_size = Some(image_size);
        self
    }

    fn image_gap(&mut self, gap: f64) -> &mut Self {
        self.image_gap = Some(gap);
        self
    }

    fn image_position(&mut self, x: f64, y: f64) -> &mut Self {
        self.image_position = Some((x, y));
        self
    }
}

impl SvgBuilder {
    fn image_placement(image_background_shape: ImageBackgroundShape, n: usize) -> (f64, f64) {
        use ImageBackgroundShape::{Circle, RoundedSquare, Square};

        #[rustfmt::skip]
        const SQUARE: [f64; 40] = [
            5f64,   9f64,  9f64, 11f64, 13f64,
            13f64, 15f64, 17f64, 17f64, 19f64,
            21f64, 21f64, 23f64, 25f64, 25f64,
            27f64, 29f64, 29f64, 31f64, 33f64,
            33f64, 35f64, 37f64, 37f64, 39f64,
            41f64, 41f64, 43f64, 45f64, 45f64,
            47f64, 49f64, 49f64, 51f64, 53f64,
            53f64, 55f64, 57f64, 57f64, 59f64,
        ];
        const ROUNDED_SQUARE: [f64; 40] = SQUARE;
        const CIRCLE: [f64; 40] = SQUARE;

        // Using hardcoded values
        let version = Version::from_n(n) as usize;
        let border_size = match image_background_shape {
            Square => SQUARE[version],
            RoundedSquare => ROUNDED_SQUARE[version],
            Circle => CIRCLE[version],
        };

        // Allows for a module gap between the image and the border
        let gap = match image_background_shape {
            Square | RoundedSquare => 2f64,
            Circle => 3f64,
        };
        // Make the image border bigger for bigger versions
        let gap = gap * (version + 10) as f64 / 10f64;
        (border_size, (border_size - gap).round())
    }

    fn image(&self, n: usize) -> String {
        if self.image.is_none() {
            return String::new();
        }

        let image = self.image.as_ref().unwrap();
        let mut out = String::with_capacity(image.len() + 100);

        let (mut border_size, mut image_size) =
            Self::image_placement(self.image_background_shape, n);

        if let Some(override_size) = self.image_size {
            let gap = -(image_size - border_size);
            border_size = override_size + gap;
            image_size = override_size;
        }

        if let Some(override_gap) = self.image_gap {
            border_size = image_size + override_gap * 2f64;
        }

        let mut placed_coord_x = (self.margin * 2 + n) as f64 - border_size;

        // Adjust for non-integer initial x coordinates so as not to partially cover bits by rounding down.
        if placed_coord_x % 2f64 != 0f64 {
            placed_coord_x += 1f64;
            border_size -= 1f64;
        }

        placed_coord_x = placed_coord_x / 2f64;

        let mut placed_coord = (placed_coord_x, placed_coord_x);

        if let Some((x, y)) = self.image_position {
            placed_coord = (x - border_size / 2f64, y - border_size / 2f64);
        }

        let format = match self.image_background_shape {
            ImageBackgroundShape::Square => {
                r#"<rect x="{0}" y="{1}" width="{2}" height="{2}" fill="{3}"/>"#
            }
            ImageBackgroundShape::Circle => {
                r#"<rect x="{0}" y="{1}" width="{2}" height="{2}" fill="{3}" rx="1000px"/>"#
            }
            ImageBackgroundShape::RoundedSquare => {
                r#"<rect x="{0}" y="{1}" width="{2}" height="{2}" fill="{3}" rx="1px"/>"#
            }
        };

        let format = format
            .replace("{0}", &placed_coord.0.to_string())
            .replace("{1}", &placed_coord.1.to_string())
            .replace("{2}", &border_size.to_string())
            .replace("{3}", &self.image_background_color.to_str());

        out.push_str(&format);

        // The image reference is user data: escape XML special characters so it stays a single attribute value
        let image = image
            .replace('&', "&amp;")
            .replace('<', "&lt;")
            .replace('>', "&gt;")
            .replace('"', "&quot;")
            .replace('\'', "&apos;");

        out.push_str(&format!(
            r#"<image x="{0:.2}" y="{1:.2}" width="{2:.2}" height="{2:.2}" href="{3}" />"#,
            placed_coord.0 + (border_size - image_size) / 2f64,
            placed_coord.1 + (border_size - image_size) / 2f64,
            image_size,
            image
        ));

        out
    }

    fn path(&self, qr: &QRCode) -> String {
        const DEFAULT_COMMAND: [ModuleFunction; 1] = [Shape::square];
        const DEFAULT_COMMAND_COLOR: [Option<Color>; 1] = [None];

        // TODO: cleanup this basic logic
        let command_colors: &[Option<Color>] = if !self.commands.is_empty() {
            &self.command_colors
        } else {
            &DEFAULT_COMMAND_COLOR
        };
        let commands: &[ModuleFunction] = if !self.commands.is_empty() {
            &self.commands
        } else {
            &DEFAULT_COMMAND
        };

        let mut paths = vec![String::with_capacity(10 * qr.size * qr.size); commands.len()];
        for path in paths.iter_mut() {
            path.push_str(r#"<path d=""#);
        }

        for y in 0..qr.size {
            let line = &qr[y];
            for (x, &cell) in line.iter().enumerate() {
                if !cell.value() {
                    continue;
                }

                for (i, command) in commands.iter().enumerate() {
                    paths[i].push_str(&command(y + self.margin, x + self.margin, cell));
                }
            }
        }

        for (i, &command) in commands.iter().enumerate() {
            let command_color = command_colors[i].as_ref().unwrap_or(&self.dot_color);
            // Allows to compare if two function pointers are the same
            // This works because there is no notion of Generics for `rounded_square`
            if command as usize == Shape::rounded_square as usize {
                paths[i].push_str(&format!(
                    r##"" stroke-width=".3" stroke-linejoin="round" stroke="{}"##,
                    command_color.to_str()
                ));
            }

            paths[i].push_str(&format!(r#"" fill="{}"/>"#, command_color.to_str()));
        }

        paths.join("")
    }

    /// Return a string containing the svg for a qr code
    pub fn to_str(&self, qr: &QRCode) -> String {
        let n = qr.size;

        let mut out = String::with_capacity(11 * n * n / 2);
        out.push_str(&format!(
            r#"<svg viewBox="0 0 {0} {0}" xmlns="http://www.w3.org/2000/svg">"#,
            self.margin * 2 + n
        ));

        out.push_str(&format!(
            r#"<rect width="{0}px" height="{0}px" fill="{1}"/>"#,
            self.margin * 2 + n,
            self.background_color.to_str()
        ));

        out.push_str(&self.path(qr));
        out.push_str(&self.image(n));

        out.push_str("</svg>");
        out
    }

    /// Saves the svg for a qr code to a file
    #[cfg(not(feature = "wasm-bindgen"))]
    pub fn to_file(&self, qr: &QRCode, file: &str) -> Result<(), SvgError> {
        use std::fs::File;
        use std::io::Write;

        let out = self.to_str(qr);

        let mut f = File::create(file).map_err(SvgError::IoError)?;
        f.write_all(out.as_bytes()).map_err(SvgError::IoError)?;

        Ok(())
    }
}
