//! Converts a [`crate::QRCode`] to image or SVG you will need to activate associated feature flag

#[cfg(feature = "svg")]
#[cfg_attr(docsrs, doc(cfg(feature = "svg")))]
pub mod svg;
use core::ops::Deref;

#[cfg(feature = "svg")]
use svg::SvgError;

#[cfg(feature = "image")]
#[cfg_attr(docsrs, doc(cfg(feature = "image")))]
pub mod image;
#[cfg(feature = "image")]
use image::ImageError;

use crate::Module;

/// Converts a position to a module svg
/// # Example
///
/// For the square shape, the svg is `M{x},{y}h1v1h-1`
///
/// ```rust
/// # use fast_qr::Module;
/// fn square(y: usize, x: usize, _module: Module) -> String {
///     format!("M{x},{y}h1v1h-1")
/// }
/// ```
pub type ModuleFunction = fn(usize, usize, Module) -> String;

#[cfg(all(target_arch = "wasm32", feature = "wasm-bindgen"))]
use wasm_bindgen::prelude::*;

/// Different possible Shapes to represent modules in a [`crate::QRCode`]
#[repr(C)]
#[wasm_bindgen]
#[cfg(feature = "wasm-bindgen")]
#[derive(Debug, Clone, Copy, PartialEq, Eq, Ord, PartialOrd)]
pub enum Shape {
    /// Square Shape
    Square,
    /// Circle Shape
    Circle,
    /// RoundedSquare Shape
    RoundedSquare,
    /// Vertical Shape
    Vertical,
    /// Horizontal Shape
    Horizontal,
    /// Diamond Shape
    Diamond,
}

/// Different possible Shapes to represent modules in a [`crate::QRCode`]
#[cfg(not(feature = "wasm-bindgen"))]
#[derive(Debug, Clone, Copy, PartialEq, Eq, Ord, PartialOrd)]
pub enum Shape {
    /// Square Shape
    Square,
    /// Circle Shape
    Circle,
    /// RoundedSquare Shape
    RoundedSquare,
    /// Vertical Shape
    Vertical,
    /// Horizontal Shape
    Horizontal,
    /// Diamond Shape
    Diamond,
    /// Custom Shape with a function / closure
    /// # Example
    /// ```rust
    /// use fast_qr::convert::Shape;
    /// let command_function = |y, x, cell| {
    ///     if x % 2 == 0 {
    ///         // Works thanks to Deref
    ///         Shape::Square(y, x, cell)
    ///     } else {
    ///         // Rectangle
    ///         format!("M{x},{y}h1v.5h-1")
    ///     }
    /// };
    /// let command = Shape::Command(command_function);
    /// ```
    ///
    /// <svg viewBox="0 0 37 37" xmlns="http://www.w3.org/2000/svg" width="250px">
    ///     <rect width="37px" height="37px" fill="#ffffff" />
    ///     <path
    ///         d="M4,4h1v1h-1M4,5h1v1h-1M4,6h1v1h-1M4,7h1v1h-1M4,8h1v1h-1M4,9h1v1h-1M4,10h1v1h-1M4,12h1v1h-1M4,13h1v1h-1M4,17h1v1h-1M4,19h1v1h-1M4,22h1v1h-1M4,24h1v1h-1M4,26h1v1h-1M4,27h1v1h-1M4,28h1v1h-1M4,29h1v1h-1M4,30h1v1h-1M4,31h1v1h-1M4,32h1v1h-1M5,4h1v.5h-1M5,10h1v.5h-1M5,12h1v.5h-1M5,13h1v.5h-1M5,14h1v.5h-1M5,17h1v.5h-1M5,19h1v.5h-1M5,22h1v.5h-1M5,23h1v.5h-1M5,26h1v.5h-1M5,32h1v.5h-1M6,4h1v1h-1M6,6h1v1h-1M6,7h1v1h-1M6,8h1v1h-1M6,10h1v1h-1M6,12h1v1h-1M6,14h1v1h-1M6,16h1v1h-1M6,18h1v1h-1M6,19h1v1h-1M6,23h1v1h-1M6,24h1v1h-1M6,26h1v1h-1M6,28h1v1h-1M6,29h1v1h-1M6,30h1v1h-1M6,32h1v1h-1M7,4h1v.5h-1M7,6h1v.5h-1M7,7h1v.5h-1M7,8h1v.5h-1M7,10h1v.5h-1M7,13h1v.5h-1M7,15h1v.5h-1M7,18h1v.5h-1M7,21h1v.5h-1M7,23h1v.5h-1M7,26h1v.5h-1M7,28h1v.5h-1M7,29h1v.5h-1M7,30h1v.5h-1M7,32h1v.5h-1M8,4h1v1h-1M8,6h1v1h-1M8,7h1v1h-1M8,8h1v1h-1M8,10h1v1h-1M8,16h1v1h-1M8,17h1v1h-1M8,18h1v1h-1M8,19h1v1h-1M8,20h1v1h-1M8,22h1v1h-1M8,23h1v1h-1M8,24h1v1h-1M8,26h1v1h-1M8,28h1v1h-1M8,29h1v1h-1M8,30h1v1h-1M8,32h1v1h-1M9,4h1v.5h-1M9,10h1v.5h-1M9,12h1v.5h-1M9,13h1v.5h-1M9,14h1v.5h-1M9,15h1v.5h-1M9,16h1v.5h-1M9,19h1v.5h-1M9,22h1v.5h-1M9,26h1v.5h-1M9,32h1v.5h-1M10,4h1v1h-1M10,5h1v1h-1M10,6h1v1h-1M10,7h1v1h-1M10,8h1v1h-1M10,9h1v1h-1M10,10h1v1h-1M10,12h1v1h-1M10,14h1v1h-1M10,16h1v1h-1M10,18h1v1h-1M10,20h1v1h-1M10,22h1v1h-1M10,24h1v1h-1M10,26h1v1h-1M10,27h1v1h-1M10,28h1v1h-1M10,29h1v1h-1M10,30h1v1h-1M10,31h1v1h-1M10,32h1v1h-1M11,12h1v.5h-1M11,13h1v.5h-1M11,15h1v.5h-1M11,16h1v.5h-1M11,17h1v.5h-1M11,18h1v.5h-1M11,19h1v.5h-1M12,6h1v1h-1M12,7h1v1h-1M12,8h1v1h-1M12,10h1v1h-1M12,12h1v1h-1M12,20h1v1h-1M12,22h1v1h-1M12,23h1v1h-1M12,24h1v1h-1M12,25h1v1h-1M12,26h1v1h-1M12,27h1v1h-1M12,30h1v1h-1M12,31h1v1h-1M12,32h1v1h-1M13,9h1v.5h-1M13,11h1v.5h-1M13,12h1v.5h-1M13,13h1v.5h-1M13,14h1v.5h-1M13,15h1v.5h-1M13,16h1v.5h-1M13,18h1v.5h-1M13,20h1v.5h-1M13,25h1v.5h-1M13,26h1v.5h-1M13,27h1v.5h-1M13,28h1v.5h-1M13,29h1v.5h-1M13,30h1v.5h-1M13,32h1v.5h-1M14,4h1v1h-1M14,6h1v1h-1M14,7h1v1h-1M14,9h1v1h-1M14,10h1v1h-1M14,12h1v1h-1M14,13h1v1h-1M14,14h1v1h-1M14,15h1v1h-1M14,16h1v1h-1M14,17h1v1h-1M14,18h1v1h-1M14,19h1v1h-1M14,20h1v1h-1M14,22h1v1h-1M14,24h1v1h-1M14,25h1v1h-1M14,26h1v1h-1M14,27h1v1h-1M15,4h1v.5h-1M15,6h1v.5h-1M15,8h1v.5h-1M15,9h1v.5h-1M15,11h1v.5h-1M15,12h1v.5h-1M15,13h1v.5h-1M15,15h1v.5h-1M15,16h1v.5h-1M15,18h1v.5h-1M15,20h1v.5h-1M15,21h1v.5h-1M15,22h1v.5h-1M15,25h1v.5h-1M15,26h1v.5h-1M15,27h1v.5h-1M15,29h1v.5h-1M15,31h1v.5h-1M16,5h1v1h-1M16,7h1v1h-1M16,9h1v1h-1M16,10h1v1h-1M16,11h1v1h-1M16,12h1v1h-1M16,14h1v1h-1M16,17h1v1h-1M16,24h1v1h-1M16,25h1v1h-1M16,27h1v1h-1M16,30h1v1h-1M16,31h1v1h-1M16,32h1v1h-1M17,5h1v.5h-1M17,6h1v.5h-1M17,8h1v.5h-1M17,9h1v.5h-1M17,12h1v.5h-1M17,16h1v.5h-1M17,18h1v.5h-1M17,20h1v.5h-1M17,23h1v.5h-1M17,24h1v.5h-1M17,25h1v.5h-1M17,26h1v.5h-1M17,28h1v.5h-1M17,29h1v.5h-1M17,31h1v.5h-1M17,32h1v.5h-1M18,4h1v1h-1M18,5h1v1h-1M18,7h1v1h-1M18,9h1v1h-1M18,10h1v1h-1M18,12h1v1h-1M18,13h1v1h-1M18,14h1v1h-1M18,16h1v1h-1M18,19h1v1h-1M18,20h1v1h-1M18,22h1v1h-1M18,24h1v1h-1M18,26h1v1h-1M18,27h1v1h-1M19,4h1v.5h-1M19,6h1v.5h-1M19,7h1v.5h-1M19,8h1v.5h-1M19,12h1v.5h-1M19,13h1v.5h-1M19,16h1v.5h-1M19,21h1v.5h-1M19,22h1v.5h-1M19,24h1v.5h-1M19,28h1v.5h-1M19,29h1v.5h-1M19,31h1v.5h-1M20,5h1v1h-1M20,6h1v1h-1M20,8h1v1h-1M20,9h1v1h-1M20,10h1v1h-1M20,13h1v1h-1M20,14h1v1h-1M20,16h1v1h-1M20,19h1v1h-1M20,20h1v1h-1M20,25h1v1h-1M20,29h1v1h-1M20,30h1v1h-1M20,31h1v1h-1M21,4h1v.5h-1M21,6h1v.5h-1M21,7h1v.5h-1M21,8h1v.5h-1M21,12h1v.5h-1M21,14h1v.5h-1M21,16h1v.5h-1M21,17h1v.5h-1M21,19h1v.5h-1M21,20h1v.5h-1M21,24h1v.5h-1M21,25h1v.5h-1M21,26h1v.5h-1M21,27h1v.5h-1M21,28h1v.5h-1M21,29h1v.5h-1M21,31h1v.5h-1M21,32h1v.5h-1M22,4h1v1h-1M22,7h1v1h-1M22,8h1v1h-1M22,10h1v1h-1M22,13h1v1h-1M22,15h1v1h-1M22,17h1v1h-1M22,19h1v1h-1M22,20h1v1h-1M22,21h1v1h-1M22,23h1v1h-1M22,26h1v1h-1M22,27h1v1h-1M22,29h1v1h-1M23,4h1v.5h-1M23,6h1v.5h-1M23,9h1v.5h-1M23,11h1v.5h-1M23,13h1v.5h-1M23,14h1v.5h-1M23,15h1v.5h-1M23,16h1v.5h-1M23,19h1v.5h-1M23,20h1v.5h-1M23,21h1v.5h-1M23,23h1v.5h-1M23,24h1v.5h-1M23,26h1v.5h-1M23,28h1v.5h-1M23,31h1v.5h-1M24,4h1v1h-1M24,6h1v1h-1M24,7h1v1h-1M24,9h1v1h-1M24,10h1v1h-1M24,12h1v1h-1M24,14h1v1h-1M24,15h1v1h-1M24,16h1v1h-1M24,17h1v1h-1M24,18h1v1h-1M24,19h1v1h-1M24,20h1v1h-1M24,22h1v1h-1M24,23h1v1h-1M24,24h1v1h-1M24,25h1v1h-1M24,26h1v1h-1M24,27h1v1h-1M24,28h1v1h-1M24,30h1v1h-1M25,12h1v.5h-1M25,16h1v.5h-1M25,18h1v.5h-1M25,20h1v.5h-1M25,21h1v.5h-1M25,22h1v.5h-1M25,24h1v.5h-1M25,28h1v.5h-1M25,29h1v.5h-1M25,32h1v.5h-1M26,4h1v1h-1M26,5h1v1h-1M26,6h1v1h-1M26,7h1v1h-1M26,8h1v1h-1M26,9h1v1h-1M26,10h1v1h-1M26,14h1v1h-1M26,16h1v1h-1M26,17h1v1h-1M26,18h1v1h-1M26,19h1v1h-1M26,21h1v1h-1M26,22h1v1h-1M26,23h1v1h-1M26,24h1v1h-1M26,26h1v1h-1M26,28h1v1h-1M27,4h1v.5h-1M27,10h1v.5h-1M27,13h1v.5h-1M27,14h1v.5h-1M27,15h1v.5h-1M27,16h1v.5h-1M27,17h1v.5h-1M27,19h1v.5h-1M27,20h1v.5h-1M27,22h1v.5h-1M27,23h1v.5h-1M27,24h1v.5h-1M27,28h1v.5h-1M27,29h1v.5h-1M28,4h1v1h-1M28,6h1v1h-1M28,7h1v1h-1M28,8h1v1h-1M28,10h1v1h-1M28,12h1v1h-1M28,13h1v1h-1M28,16h1v1h-1M28,20h1v1h-1M28,21h1v1h-1M28,22h1v1h-1M28,24h1v1h-1M28,25h1v1h-1M28,26h1v1h-1M28,27h1v1h-1M28,28h1v1h-1M28,29h1v1h-1M28,30h1v1h-1M28,32h1v1h-1M29,4h1v.5h-1M29,6h1v.5h-1M29,7h1v.5h-1M29,8h1v.5h-1M29,10h1v.5h-1M29,12h1v.5h-1M29,13h1v.5h-1M29,15h1v.5h-1M29,16h1v.5h-1M29,17h1v.5h-1M29,18h1v.5h-1M29,22h1v.5h-1M29,23h1v.5h-1M29,24h1v.5h-1M29,25h1v.5h-1M29,27h1v.5h-1M29,29h1v.5h-1M29,30h1v.5h-1M30,4h1v1h-1M30,6h1v1h-1M30,7h1v1h-1M30,8h1v1h-1M30,10h1v1h-1M30,12h1v1h-1M30,13h1v1h-1M30,14h1v1h-1M30,16h1v1h-1M30,18h1v1h-1M30,20h1v1h-1M30,21h1v1h-1M30,22h1v1h-1M30,23h1v1h-1M30,24h1v1h-1M30,25h1v1h-1M30,26h1v1h-1M30,27h1v1h-1M30,28h1v1h-1M30,30h1v1h-1M30,31h1v1h-1M31,4h1v.5h-1M31,10h1v.5h-1M31,13h1v.5h-1M31,18h1v.5h-1M31,19h1v.5h-1M31,20h1v.5h-1M31,21h1v.5h-1M31,26h1v.5h-1M31,28h1v.5h-1M31,29h1v.5h-1M31,31h1v.5h-1M32,4h1v1h-1M32,5h1v1h-1M32,6h1v1h-1M32,7h1v1h-1M32,8h1v1h-1M32,9h1v1h-1M32,10h1v1h-1M32,14h1v1h-1M32,15h1v1h-1M32,16h1v1h-1M32,17h1v1h-1M32,18h1v1h-1M32,19h1v1h-1M32,22h1v1h-1M32,26h1v1h-1M32,28h1v1h-1M32,30h1v1h-1"
    ///         fill="#000000" />
    /// </svg>
    Command(ModuleFunction),
}

impl From<Shape> for usize {
    fn from(shape: Shape) -> Self {
        match shape {
            Shape::Square => 0,
            Shape::Circle => 1,
            Shape::RoundedSquare => 2,
            Shape::Vertical => 3,
            Shape::Horizontal => 4,
            Shape::Diamond => 5,
            #[cfg(not(feature = "wasm-bindgen"))]
            Shape::Command(_) => 6,
        }
    }
}

impl From<String> for Shape {
    #[allow(clippy::match_same_arms)]
    fn from(shape: String) -> Self {
        match shape.to_lowercase().as_str() {
            "square" => Shape::Square,
            "circle" => Shape::Circle,
            "rounded_square" => Shape::RoundedSquare,
            "vertical" => Shape::Vertical,
            "horizontal" => Shape::Horizontal,
            "diamond" => Shape::Diamond,

            _ => Shape::Square,
        }
    }
}

impl From<Shape> for &str {
    fn from(shape: Shape) -> Self {
        match shape {
            Shape::Square => "square",
            Shape::Circle => "circle",
            Shape::RoundedSquare => "rounded_square",
            Shape::Vertical => "vertical",
            Shape::Horizontal => "horizontal",
            Shape::Diamond => "diamond",
            #[cfg(not(feature = "wasm-bindgen"))]
            Shape::Command(_) => "command",
        }
    }
}

impl Shape {
    pub(crate) fn square(y: usize, x: usize, _: Module) -> String {
        format!("M{x},{y}h1v1h-1")
    }

    pub(crate) fn circle(y: usize, x: usize, _: Module) -> String {
        format!("M{},{y}.5a.5,.5 0 1,1 0,-.1", x + 1)
    }

    pub(crate) fn rounded_square(y: usize, x: usize, _: Module) -> String {
        format!("M{x}.2,{y}.2 {x}.8,{y}.2 {x}.8,{y}.8 {x}.2,{y}.8z")
    }

    pub(crate) fn horizontal(y: usize, x: usize, _: Module) -> String {
        format!("M{x},{y}.1h1v.8h-1")
    }

    pub(crate) fn vertical(y: usize, x: usize, _: Module) -> String {
        format!("M{x}.1,{y}h.8v1h-.8")
    }

    pub(crate) fn diamond(y: usize, x: usize, _: Module) -> String {
        format!("M{x}.5,{y}l.5,.5l-.5,.5l-.5,-.5z")
    }

    const FUNCTIONS: [ModuleFunction; 6] = [
        Shape::square,
        Shape::circle,
        Shape::rounded_square,
        Shape::vertical,
        Shape::horizontal,
        Shape::diamond,
    ];
}

impl Deref for Shape {
    type Target = ModuleFunction;

    fn deref(&self) -> &Self::Target {
        let index: usize = (*self).into();
        match self {
            #[cfg(not(feature = "wasm-bindgen"))]
            Self::Command(func) => func,
            _ => &Self::FUNCTIONS[index],
        }
    }
}

/// Different possible image background shapes
#[cfg_attr(feature = "wasm-bindgen", repr(C), wasm_bindgen)]
#[derive(Debug, Clone, Copy, PartialEq, Eq, Ord, PartialOrd)]
pub enum ImageBackgroundShape {
    /// Square shape
    Square,
    /// Circle shape
    Circle,
    /// Rounded square shape
    RoundedSquare,
}

/// Contains possible errors for a conversion
#[derive(Debug)]
pub enum ConvertError {
    /// Contains error message for a SVG conversion
    #[cfg(feature = "svg")]
    #[cfg_attr(docsrs, doc(cfg(feature = "svg")))]
    Svg(String),
    /// Contains error message for an Image conversion
    #[cfg(feature = "image")]
    #[cfg_attr(docsrs, doc(cfg(feature = "image")))]
    Image(String),
    /// Contains error message if a file write failed
    Io(std::io::Error),
}

#[cfg(feature = "svg")]
#[cfg_attr(docsrs, doc(cfg(feature = "svg")))]
impl From<SvgError> for ConvertError {
    fn from(err: SvgError) -> Self {
        match err {
            SvgError::SvgError(svg_err) => Self::Svg(svg_err),
            #[cfg(not(feature = "wasm-bindgen"))]
            SvgError::IoError(io_err) => Self::Io(io_err),
        }
    }
}

#[cfg(feature = "image")]
#[cfg_attr(docsrs, doc(cfg(feature = "image")))]
impl From<ImageError> for ConvertError {
    fn from(err: ImageError) -> Self {
        match err {
            ImageError::EncodingError(image_err) => Self::Image(image_err),
            ImageError::ImageError(image_err) => Self::Image(image_err),
            ImageError::IoError(io_err) => Self::Io(io_err),
        }
    }
}

/// Converts an array of pixel color to it's hexadecimal representation
/// # Example
/// ```rust
/// # use fast_qr::convert::rgba2hex;
/// let color = [0, 0, 0, 255];
/// assert_eq!(&rgba2hex(color), "#000000");
/// ```
#[must_use]
pub fn rgba2hex(color: [u8; 4]) -> String {
    let mut hex = String::with_capacity(9);

    hex.push('#');
    hex.push_str(&format!("{:02x}", color[0]));
    hex.push_str(&format!("{:02x}", color[1]));
    hex.push_str(&format!("{:02x}", color[2]));
    if color[3] != 255 {
        hex.push_str(&format!("{:02x}", color[3]));
    }

    hex
}

/// Allows to take String, string slices, arrays or slices of u8 (3 or 4) to create a [Color]
pub struct Color(pub String);

impl Color {
    /// Returns the contained color
    #[must_use]
    pub fn to_str(&self) -> &str {
        &self.0
    }
}

impl From<String> for Color {
    fn from(color: String) -> Self {
        Self(color)
    }
}

impl From<&str> for Color {
    fn from(color: &str) -> Self {
        Self(color.to_string())
    }
}

impl From<[u8; 4]> for Color {
    fn from(color: [u8; 4]) -> Self {
        Self(rgba2hex(color))
    }
}

impl From<[u8; 3]> for Color {
    fn from(color: [u8; 3]) -> Self {
        Self::from([color[0], color[1], color[2], 255])
    }
}

impl From<&[u8]> for Color {
    fn from(color: &[u8]) -> Self {
        if color.len() == 3 {
            Self::from([color[0], color[1], color[2]])
        } else if color.len() == 4 {
            Self::from([color[0], color[1], color[2], color[3]])
        } else {
            panic!("Invalid color length");
        }
    }
}

impl From<Vec<u8>> for Color {
    fn from(color: Vec<u8>) -> Self {
        Self::from(&color[..])
    }
}

/// Trait for `SvgBuilder` and `ImageBuilder`
pub trait Builder {
    /// Updates margin (default: 4)
    fn margin(&mut self, margin: usize) -> &mut Self;
    /// Updates module color (default: #000000)
    fn module_color<C: Into<Color>>(&mut self, module_color: C) -> &mut Self;
    /// Updates background color (default: #FFFFFF)
    fn background_color<C: Into<Color>>(&mut self, background_color: C) -> &mut Self;
    /// Adds a shape to the shapes list
    fn shape(&mut self, shape: Shape) -> &mut Self;
    /// Add a shape to the shapes list with a specific color
    fn shape_color<C: Into<Color>>(&mut self, shape: Shape, color: C) -> &mut Self;

    // Manages the image part

    /// Provides the image path or an base64 encoded image
    fn image(&mut self, image: String) -> &mut Self;
    /// Updates the image background color (default: #FFFFFF)
    fn image_background_color<C: Into<Color>>(&mut self, image_background_color: C) -> &mut Self;
    /// Updates the image background shape (default: Square)
    fn image_background_shape(&mut self, image_background_shape: ImageBackgroundShape)
        -> &mut Self;
    /// Updates the image size and the gap between the image and the [`crate::QRCode`]
    /// Default is around 30% of the [`crate::QRCode`] size
    fn image_size(&mut self, image_size: f64) -> &mut Self;
    /// Updates the gap between the image and the [`crate::QRCode`]
    fn image_gap(&mut self, gap: f64) -> &mut Self;
    /// Updates the image position, anchor is the center of the image. Default is the center of the [`crate::QRCode`]
    fn image_position(&mut self, x: f64, y: f64) -> &mut Self;
}
