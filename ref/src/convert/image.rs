//! Converts [`QRCode`] to an image
//!
//! ```rust
//! use fast_qr::convert::ConvertError;
//! use fast_qr::convert::{image::ImageBuilder, Builder, Shape};
//! use fast_qr::qr::QRBuilder;
//!
//! # fn main() -> Result<(), ConvertError> {
//! // QRBuilde::new can fail if content is too big for version,
//! // please check before unwrapping.
//! let qrcode = QRBuilder::new("https://example.com/")
//!     .build()
//!     .unwrap();
//!
//! let _img = ImageBuilder::default()
//!     .shape(Shape::RoundedSquare)
//!     .fit_width(600)
//!     .to_file(&qrcode, "out.png");
//!
//! #     std::fs::remove_file("out.png");
//! #     Ok(())
//! # }
//! ```

use std::fmt::Formatter;
use std::io;

use crate::QRCode;

use super::Color;
use super::{svg::SvgBuilder, Builder, Shape};

use resvg::tiny_skia::{self, Pixmap};
use resvg::usvg;

/// [`ImageBuilder`] contains an [`SvgBuilder`] and adds some options \
/// - fit_height adds a max-height boundary
/// - fit_width adds a max-width boundary
pub struct ImageBuilder {
    fit_height: Option<u32>,
    fit_width: Option<u32>,
    svg_builder: SvgBuilder,
}

/// Error when converting to image
#[derive(Debug)]
pub enum ImageError {
    /// Error while writing to file
    IoError(io::Error),
    /// Error while creating image
    ImageError(String),
    /// Error while convert to bytes
    EncodingError(String),
}

impl std::error::Error for ImageError {}

impl std::fmt::Display for ImageError {
    fn fmt(&self, f: &mut Formatter<'_>) -> std::fmt::Result {
        match self {
            ImageError::IoError(io_err) => f.write_str(io_err.to_string().as_str()),
            ImageError::ImageError(error) => f.write_str(error.as_str()),
            ImageError::EncodingError(error) => f.write_str(error.as_str()),
        }
    }
}

/// Creates an ImageBuilder instance, which contains an [`SvgBuilder`]
impl Default for ImageBuilder {
    fn default() -> Self {
        ImageBuilder {
            fit_height: None,
            fit_width: None,
            svg_builder: Default::default(),
        }
    }
}

impl Builder for ImageBuilder {
    fn margin(&mut self, margin: usize) -> &mut Self {
        self.svg_builder.margin(margin);
        self
    }

    fn module_color<C: Into<Color>>(&mut self, module_color: C) -> &mut Self {
        self.svg_builder.module_color(module_color);
        self
    }

    fn background_color<C: Into<Color>>(&mut self, background_color: C) -> &mut Self {
        self.svg_builder.background_color(background_color);
        self
    }

    fn shape(&mut self, shape: Shape) -> &mut Self {
        self.svg_builder.shape(shape);
        self
    }

    fn image(&mut self, image: String) -> &mut Self {
        self.svg_builder.image(image);
        self
    }

    fn image_background_color<C: Into<Color>>(&mut self, image_background_color: C) -> &mut Self {
        self.svg_builder
            .image_background_color(image_background_color);
        self
    }

    fn image_background_shape(
        &mut self,
        image_background_shape: super::ImageBackgroundShape,
    ) -> &mut Self {
        self.svg_builder
            .image_background_shape(image_background_shape);
        self
    }

    fn image_size(&mut self, image_size: f64) -> &mut Self {
        self.svg_builder.image_size(image_size);
        self
    }

    fn image_gap(&mut self, gap: f64) -> &mut Self {
        self.svg_builder.image_gap(gap);
        self
    }

    fn image_position(&mut self, x: f64, y: f64) -> &mut Self {
        self.svg_builder.image_position(x, y);
        self
    }

    fn shape_color<C: Into<Color>>(&mut self, shape: Shape, color: C) -> &mut Self {
        self.svg_builder.shape_color(shape, color);
        self
    }
}

impl ImageBuilder {
    /// Add a max-height boundary
    pub fn fit_height(&mut self, height: u32) -> &mut Self {
        self.fit_height = Some(height);
        self
    }

    /// Add a max-width boundary
    pub fn fit_width(&mut self, width: u32) -> &mut Self {
        self.fit_width = Some(width);
        self
    }

    // From https://github.com/RazrFalcon/resvg/blob/374a25f/crates/resvg/tests/integration/main.rs
    /// Return a pixmap containing the svg for a QRCode
    pub fn to_pixmap(&self, qr: &QRCode) -> Pixmap {
        let opt = usvg::Options::default();

        // Do not unwrap on the from_data line, because panic will poison GLOBAL_OPT.
        let tree = {
            let svg_data = self.svg_builder.to_str(qr);
            let tree = usvg::Tree::from_data(svg_data.as_bytes(), &opt);
            tree.expect("Failed to parse SVG")
        };

        let fit_to = match (self.fit_width, self.fit_height) {
            (Some(w), Some(h)) => usvg::FitTo::Size(w, h),
            (Some(w), None) => usvg::FitTo::Width(w),
            (None, Some(h)) => usvg::FitTo::Height(h),
            _ => usvg::FitTo::Original,
        };

        let size = fit_to
            .fit_to(tree.size.to_screen_size())
            .unwrap_or(tree.size.to_screen_size());
        let mut pixmap =
            tiny_skia::Pixmap::new(size.width(), size.height()).expect("Failed to create pixmap");
        resvg::render(
            &tree,
            fit_to,
            tiny_skia::Transform::default(),
            pixmap.as_mut(),
        )
        .unwrap();

        pixmap
    }

    /// Saves the image for a QRCode to a file
    pub fn to_file(&self, qr: &QRCode, file: &str) -> Result<(), ImageError> {
        use io::{Error, ErrorKind};

        self.to_pixmap(qr)
            .save_png(file)
            .map_err(|err| ImageError::IoError(Error::new(ErrorKind::Other, err.to_string())))
    }

    /// Saves the image for a QRCode in a byte buffer
    pub fn to_bytes(&self, qr: &QRCode) -> Result<Vec<u8>, ImageError> {
        let out = self.to_pixmap(qr);
        out.encode_png()
            .map_err(|err| ImageError::EncodingError(err.to_string()))
    }
}
