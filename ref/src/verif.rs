//! Verification hooks, compiled only with `--cfg fast_qr_verif`.
//!
//! Thin re-exports of crate-private pipeline stages plus a thread-local recorder for the
//! mask selection loop. Nothing here changes behaviour; with the cfg off this file is not
//! part of the crate.

use crate::compact::CompactQR;
use crate::{Mask, Mode, QRCode, Version, ECL};
use std::cell::RefCell;

/// One candidate as seen by the mask selection loop
pub struct Candidate {
    pub mask: Mask,
    pub score: u32,
    pub size: usize,
    pub modules: Vec<u8>,
}

thread_local! {
    static CANDIDATES: RefCell<Option<Vec<Candidate>>> = RefCell::new(None);
}

pub fn start_recording() {
    CANDIDATES.with(|c| *c.borrow_mut() = Some(Vec::new()));
}

pub fn take_candidates() -> Vec<Candidate> {
    CANDIDATES.with(|c| c.borrow_mut().take().unwrap_or_default())
}

pub(crate) fn record_candidate(mask: Mask, score: u32, qr: &QRCode) {
    CANDIDATES.with(|c| {
        if let Some(v) = c.borrow_mut().as_mut() {
            v.push(Candidate {
                mask,
                score,
                size: qr.size,
                modules: qr.data[..qr.size * qr.size].iter().map(|m| m.0).collect(),
            });
        }
    });
}

pub fn division(from: &[u8], by: &[u8]) -> [u8; 255] {
    crate::polynomials::division(from, by)
}

pub fn get_polynomial(version: Version, ecl: ECL) -> &'static [u8] {
    crate::hardcode::get_polynomial(version, ecl)
}

pub fn version_get(mode: Mode, ecl: ECL, len: usize) -> Option<Version> {
    Version::get(mode, ecl, len)
}

pub fn best_encoding(input: &[u8]) -> Mode {
    crate::encode::best_encoding(input)
}

/// Data codewords (before error correction) of `input`
pub fn encode(input: &[u8], ecl: ECL, mode: Mode, version: Version) -> Vec<u8> {
    let c = crate::encode::encode(input, ecl, mode, version);
    c.get_data()[..crate::hardcode::data_codewords(version, ecl)].to_vec()
}

/// Interleaved data + error-correction codewords for `data`
pub fn structure(data: &[u8], ecl: ECL, version: Version) -> Vec<u8> {
    crate::polynomials::structure(data, ecl, version)[..version.max_bytes()].to_vec()
}

/// Blank symbol: function patterns, version information and the reserved format strip
pub fn blank(version: Version) -> QRCode {
    crate::default::create_matrix(version)
}

/// Places `codewords` (followed by zero remainder bits) on `qr` along the zig-zag
pub fn place(qr: &mut QRCode, codewords: &[u8], version: Version) {
    let mut data = codewords.to_vec();
    data.push(0);
    let bits = CompactQR::from_array(&data, version.max_bytes() * 8 + version.missing_bits());
    crate::placement::place_on_matrix_data(qr, &bits);
}

pub fn write_format(qr: &mut QRCode, ecl: ECL, mask: Mask) {
    crate::default::create_matrix_format_info(qr, ecl, mask);
}

pub fn format_information(ecl: ECL, mask: Mask) -> u16 {
    crate::hardcode::ecm_to_format_information(ecl, mask)
}

pub fn version_information(version: Version) -> u32 {
    version.information()
}

pub fn alignment_centres(version: Version) -> Vec<usize> {
    version.alignment_patterns_grid().to_vec()
}

pub fn score(qr: &QRCode) -> u32 {
    crate::score::score(qr, &crate::default::transpose(qr))
}

pub fn tables(version: Version, ecl: ECL) -> [usize; 8] {
    let [(g1c, g1s), (g2c, g2s)] = crate::hardcode::ecc_to_groups(ecl, version);
    [
        version.max_bytes(),
        version.missing_bits(),
        crate::hardcode::data_codewords(version, ecl),
        g1c,
        g1s,
        g2c,
        g2s,
        version.size(),
    ]
}

pub fn cci_bits(version: Version, mode: Mode) -> usize {
    crate::hardcode::cci_bits(version, mode)
}

/// Applies `mask` to the encoding region of `qr`
pub fn apply_mask(qr: &mut QRCode, mask: Mask) {
    crate::datamasking::mask(qr, mask);
}

/// Bit container: pushes `(value, width)` pairs and returns the bytes and the bit length
pub fn compact_push(items: &[(usize, usize)]) -> (Vec<u8>, usize) {
    let mut c = CompactQR::new();
    for &(value, width) in items {
        c.push_bits(value, width);
    }
    (c.get_data().clone(), c.len())
}
