//! Places data on a matrix
#![deny(unsafe_code)]
#![warn(missing_docs)]

use crate::compact::CompactQR;
use crate::datamasking::Mask;
use crate::encode::Mode;

use crate::module::ModuleType;
use crate::{datamasking, default, encode, polynomials, score, QRCode};
use crate::{Version, ECL};
use core::iter::Rev;
use core::ops::Range;

pub enum BiRange {
    Forward(Range<usize>),
    Backwards(Rev<Range<usize>>),
}

impl Iterator for BiRange {
    type Item = usize;
    fn next(&mut self) -> Option<usize> {
        match self {
            BiRange::Forward(range) => range.next(),
            BiRange::Backwards(range) => range.next(),
        }
    }
}

#[cfg(test)]
pub fn test_place_on_matrix_data(qr: &mut QRCode, structure_as_binarystring: &CompactQR) {
    place_on_matrix_data(qr, structure_as_binarystring);
}

/// Places the data on the matrix
pub fn place_on_matrix_data(qr: &mut QRCode, structure_as_binarystring: &CompactQR) {
    let structure_bytes_tmp = structure_as_binarystring.get_data();

    let mut rev = true;
    let mut idx = 0;

    // 0, 2, 4, 7, 9, .., N (skipping 6)
    for x in (0..6).chain(7..qr.size).rev().step_by(2) {
        let y_range = if rev {
            BiRange::Backwards((0..qr.size).rev())
        } else {
            BiRange::Forward(0..qr.size)
        };

        for y in y_range {
            if qr[y][x].module_type() == ModuleType::Data {
                let c = structure_bytes_tmp[idx / 8] & (1 << (7 - idx % 8));
                idx += 1;
                qr[y][x].set(c != 0);
            }
            if qr[y][x - 1].module_type() == ModuleType::Data {
                let c = structure_bytes_tmp[idx / 8] & (1 << (7 - idx % 8));
                idx += 1;
                qr[y][x - 1].set(c != 0);
            }
        }

        rev = !rev;
    }

    #[cfg(debug_assertions)]
    {
        let version = Version::from_n(qr.size);
        assert_eq!(idx - version.missing_bits(), version.max_bytes() * 8);
    }
}

const MASKS: [Mask; 8] = [
    Mask::Checkerboard,
    Mask::HorizontalLines,
    Mask::VerticalLines,
    Mask::DiagonalLines,
    Mask::LargeCheckerboard,
    Mask::Fields,
    Mask::Diamonds,
    Mask::Meadow,
];

/// Main function to place everything in the `QRCode`, returns a valid matrix
pub fn place_on_matrix(
    structure_as_binarystring: &CompactQR,
    quality: ECL,
    version: Version,
    mask: &mut Option<Mask>,
) -> QRCode {
    let mut best_score = u32::MAX;
    let mut best_mask = MASKS[0];

    let mut qr = default::create_matrix(version);
    place_on_matrix_data(&mut qr, structure_as_binarystring);

    for mask in MASKS {
        let mut copy = qr.clone();

        datamasking::mask(&mut copy, mask);
        let copy_transpose = default::transpose(&copy);
        let matrix_score = score::score(&copy, &copy_transpose);
        #[cfg(all(fast_qr_verif, not(fast_qr_verif_wasm_only)))]
        crate::verif::record_candidate(mask, matrix_score, &copy);
        if matrix_score < best_score {
            best_score = matrix_score;
            best_mask = mask;
        }
    }

    best_mask = mask.unwrap_or(best_mask);
    *mask = Some(best_mask);

    default::create_matrix_format_info(&mut qr, quality, best_mask);
    datamasking::mask(&mut qr, best_mask);

    qr.mask = *mask;
    qr
}

/// Generate the whole matrix
pub fn create_matrix(
    input: &[u8],
    ecl: ECL,
    mode: Mode,
    version: Version,
    mask: &mut Option<Mask>,
) -> QRCode {
    let data_codewords = encode::encode(input, ecl, mode, version);
    let structure = polynomials::structure(data_codewords.get_data(), ecl, version);

    let max = version.max_bytes() * 8;
    let structure_binstring = CompactQR::from_array(&structure, max + version.missing_bits());

    QRCode {
        mode: Some(mode),
        ecl: Some(ecl),
        version: Some(version),
        ..place_on_matrix(&structure_binstring, ecl, version, mask)
    }
}
