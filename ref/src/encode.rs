//! Contains all functions required to encode any string as a `QRCode`

#![deny(unsafe_code)]
#![warn(missing_docs)]

use crate::compact::CompactQR;
use crate::ecl::ECL;
use crate::hardcode;
use crate::version::Version;

/// Enum for the 3 encoding mode
#[derive(Clone, Copy, PartialEq, Eq, Debug)]
pub enum Mode {
    /// Numeric mode (0-9 only)
    Numeric,
    /// Alphanumeric mode (0-9, A-Z, $%*./:+-?.= [space])
    Alphanumeric,
    /// Byte mode (any)
    Byte,
}

/// Encodes the string according the mode and version
pub fn encode(input: &[u8], ecl: ECL, mode: Mode, version: Version) -> CompactQR {
    let cci_bits = hardcode::cci_bits(version, mode);

    let mut compact = CompactQR::from_version(version);

    match mode {
        Mode::Numeric => encode_numeric(&mut compact, input, cci_bits),
        Mode::Alphanumeric => encode_alphanumeric(&mut compact, input, cci_bits),
        Mode::Byte => encode_byte(&mut compact, input, cci_bits),
    };

    let data_bits = hardcode::data_bits(version, ecl);

    add_terminator(&mut compact, data_bits);
    pad_to_8(&mut compact);
    compact.fill();

    compact
}

/// Find the best encoding (Numeric -> Alnum -> Byte)
pub fn best_encoding(input: &[u8]) -> Mode {
    fn try_encode_numeric(input: &[u8], i: usize) -> Mode {
        for &c in input.iter().skip(i) {
            if !c.is_ascii_digit() {
                return try_encode_alphanumeric(input, i);
            }
        }
        Mode::Numeric
    }

    fn try_encode_alphanumeric(input: &[u8], i: usize) -> Mode {
        for &c in input.iter().skip(i) {
            if !is_qr_alphanumeric(c) {
                return Mode::Byte;
            }
        }
        Mode::Alphanumeric
    }

    try_encode_numeric(input, 0)
}

/// Encodes numeric strings (i.e. "123456789"), referring to 8.4.2 of the spec.
pub(crate) fn encode_numeric(compact: &mut CompactQR, input: &[u8], cci_bits: usize) {
    #[derive(Clone, Copy)]
    enum NumericEncoding {
        Single,
        Double,
        Triple,
    }

    fn encode_number(compact: &mut CompactQR, number: usize, encoding: NumericEncoding) {
        match encoding {
            NumericEncoding::Single => compact.push_bits(number, 4),
            NumericEncoding::Double => compact.push_bits(number, 7),
            NumericEncoding::Triple => compact.push_bits(number, 10),
        }
    }

    compact.push_bits(0b0001, 4);
    compact.push_bits(input.len(), cci_bits);

    let mut i = 0;
    let len = input.len() - input.len() % 3;

    while i < len {
        let number = ascii_to_digit(input[i]) * 100
            + ascii_to_digit(input[i + 1]) * 10
            + ascii_to_digit(input[i + 2]);

        encode_number(compact, number, NumericEncoding::Triple);
        i += 3;
    }

    // If the length is a multiple of 3, we are done
    if len == input.len() {
        return;
    }

    let mut number = 0;
    while i < input.len() {
        number *= 10;
        number += ascii_to_digit(input[i]);
        i += 1;
    }

    let encoding = match i % 3 {
        1 => NumericEncoding::Single,
        2 => NumericEncoding::Double,
        _ => unreachable!("i % 3 can only be 1 or 2"),
    };

    encode_number(compact, number, encoding);
}

/// Encodes alphanumeric strings (i.e. "FAST-QR123"), referring to 8.4.3 of the spec.
pub(crate) fn encode_alphanumeric(compact: &mut CompactQR, input: &[u8], cci_bits: usize) {
    compact.push_bits(0b0010, 4);
    compact.push_bits(input.len(), cci_bits);

    let even_size = input.len() - input.len() % 2;
    for chunk in input.chunks_exact(2) {
        let a = ascii_to_alphanumeric(chunk[0]);
        let b = ascii_to_alphanumeric(chunk[1]);
        compact.push_bits(a * 45 + b, 11);
    }
    if even_size != input.len() {
        compact.push_bits(ascii_to_alphanumeric(*input.last().unwrap()), 6);
    }
}

/// Encodes any string (i.e. "<https://fast-qr.com/🚀>"), referring to 8.4.4 of the spec.
pub(crate) fn encode_byte(compact: &mut CompactQR, input: &[u8], cci_bits: usize) {
    compact.push_bits(0b0100, 4);
    compact.push_bits(input.len(), cci_bits);
    compact.push_u8_slice(input);
}

/// Adds needed terminator padding, terminating the data `BitString`, referring to 8.4.8 of the spec.
fn add_terminator(compact: &mut CompactQR, data_bits: usize) {
    let len = data_bits - compact.len();
    let len = core::cmp::min(len, 4);

    compact.push_bits(0, len);
}

/// Adds the padding to make the length of the `BitString` a multiple of 8, referring to 8.4.9 of the spec.
fn pad_to_8(compact: &mut CompactQR) {
    let len = (8 - compact.len() % 8) % 8;
    compact.push_bits(0, len);
}

/// Converts ascii number to it's value in usize \
/// "5" -> 5
fn ascii_to_digit(c: u8) -> usize {
    assert!(
        c.is_ascii_digit(),
        "Unexpected character '{}' in Numeric mode",
        c as char
    );
    (c - b'0') as usize
}

/// Converts ascii alnum to it's numeric value, characters included in `AlphaNumeric` are: \
/// 0-9, A-Z, $%*./:+-?.= [space] \
/// referring to 7.1 of the spec.
pub(crate) fn ascii_to_alphanumeric(c: u8) -> usize {
    match c {
        b'0'..=b'9' => (c - b'0') as usize,
        b'A'..=b'Z' => (c - b'A') as usize + 10,
        b' ' => 36,
        b'$' => 37,
        b'%' => 38,
        b'*' => 39,
        b'+' => 40,
        b'-' => 41,
        b'.' => 42,
        b'/' => 43,
        b':' => 44,
        _ => panic!("Unexpected character '{}' in Alphanumeric mode", c as char),
    }
}

/// Checks if character c is alphanumeric: 0-9, A-Z, $%*./:+-?.= [space] \
/// referring to 7.1 of the spec.
const fn is_qr_alphanumeric(c: u8) -> bool {
    matches!(c,
        b'A'..=b'Z'
        | b'0'..=b'9'
        | b' '
        | b'$'
        | b'%'
        | b'*'
        | b'+'
        | b'-'
        | b'.'
        | b'/'
        | b':')
}
