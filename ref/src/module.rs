/// Module is a single pixel in the QR code.
#[derive(Debug, Clone, Copy, PartialEq, Eq)]
#[repr(u8)]
pub enum ModuleType {
    /// The module is part of the data              (Encoded data)
    Data = 0 << 1,
    /// The module is part of the finder pattern    (bigger cubes)
    FinderPattern = 1 << 1,
    /// The module is part of the alignment pattern (smaller cubes)
    Alignment = 2 << 1,
    /// The module is part of the timing pattern    (Line between finder patterns)
    Timing = 3 << 1,
    /// The module is part of the format information
    Format = 4 << 1,
    /// The module is part of the version information
    Version = 5 << 1,
    /// Dark module
    DarkModule = 6 << 1,
    /// Space between finder patterns
    Empty = 7 << 1,
}

impl From<u8> for ModuleType {
    fn from(value: u8) -> Self {
        match value {
            0 => ModuleType::Data,
            1 => ModuleType::FinderPattern,
            2 => ModuleType::Alignment,
            3 => ModuleType::Timing,
            4 => ModuleType::Format,
            5 => ModuleType::Version,
            6 => ModuleType::DarkModule,
            7 => ModuleType::Empty,
            _ => unreachable!(),
        }
    }
}

/// Module is a single pixel in the QR code.
/// Module uses u8 to store value and type.
#[derive(Copy, Clone, Debug)]
pub struct Module(pub u8);

impl Module {
    /// Represents a dark module, which is a black pixel.
    pub const DARK: bool = true;
    /// Represents a light module, which is a white pixel.
    pub const LIGHT: bool = false;

    /// Creates a new module with the given type and value.
    #[must_use]
    pub const fn new(value: bool, module_type: ModuleType) -> Self {
        let value = value as u8;
        Module(value | (module_type as u8))
    }

    /// Creates a new module with the given value with type data.
    #[must_use]
    pub const fn data(value: bool) -> Self {
        Module::new(value, ModuleType::Data)
    }

    /// Creates a new module with the given value with type finder pattern.
    #[must_use]
    pub const fn finder_pattern(value: bool) -> Self {
        Module::new(value, ModuleType::FinderPattern)
    }

    /// Creates a new module with the given value with type alignment.
    #[must_use]
    pub const fn alignment(value: bool) -> Self {
        Module::new(value, ModuleType::Alignment)
    }

    /// Creates a new module with the given value with type timing.
    #[must_use]
    pub const fn timing(value: bool) -> Self {
        Module::new(value, ModuleType::Timing)
    }

    /// Creates a new module with the given value with type format.
    #[must_use]
    pub const fn format(value: bool) -> Self {
        Module::new(value, ModuleType::Format)
    }

    /// Creates a new module with the given value with type version.
    #[must_use]
    pub const fn version(value: bool) -> Self {
        Module::new(value, ModuleType::Version)
    }

    /// Creates a new module with the given value with type dark module.
    #[must_use]
    pub const fn dark(value: bool) -> Self {
        Module::new(value, ModuleType::DarkModule)
    }

    /// Creates a new module with the given value with type empty.
    #[must_use]
    pub const fn empty(value: bool) -> Self {
        Module::new(value, ModuleType::Empty)
    }

    /// Returns the boolean value of the module.
    #[must_use]
    pub const fn value(self) -> bool {
        self.0 & 1 == 1
    }

    /// Returns the type of the module.
    #[must_use]
    pub fn module_type(self) -> ModuleType {
        ModuleType::from(self.0 >> 1)
    }

    /// Sets the boolean value of the module.
    pub fn set(&mut self, value: bool) {
        self.0 = if value { self.0 | 1 } else { self.0 & !1 };
    }

    /// Toggles the boolean value of the module.
    pub fn toggle(&mut self) {
        self.0 ^= 1;
    }
}

impl From<bool> for Module {
    fn from(value: bool) -> Self {
        Module::empty(value)
    }
}

impl PartialEq<bool> for Module {
    fn eq(&self, other: &bool) -> bool {
        self.value() == *other
    }
}

impl PartialEq<Self> for Module {
    fn eq(&self, other: &Self) -> bool {
        self.0 == other.0
    }
}

impl Eq for Module {}

#[cfg(test)]
mod test {
    use super::*;

    #[test]
    fn byte_size() {
        assert_eq!(std::mem::size_of::<Module>(), 1);
    }

    #[test]
    fn data() {
        let module = Module::data(Module::LIGHT);
        assert_eq!(module.module_type(), ModuleType::Data);
    }

    #[test]
    fn finder_pattern() {
        let module = Module::finder_pattern(Module::LIGHT);
        assert_eq!(module.module_type(), ModuleType::FinderPattern);
    }

    #[test]
    fn alignment() {
        let module = Module::alignment(Module::LIGHT);
        assert_eq!(module.module_type(), ModuleType::Alignment);
    }

    #[test]
    fn timing() {
        let module = Module::timing(Module::LIGHT);
        assert_eq!(module.module_type(), ModuleType::Timing);
    }

    #[test]
    fn format() {
        let module = Module::format(Module::LIGHT);
        assert_eq!(module.module_type(), ModuleType::Format);
    }

    #[test]
    fn version() {
        let module = Module::version(Module::LIGHT);
        assert_eq!(module.module_type(), ModuleType::Version);
    }

    #[test]
    fn dark() {
        let module = Module::dark(Module::LIGHT);
        assert_eq!(module.module_type(), ModuleType::DarkModule);
    }

    #[test]
    fn value_light() {
        let module = Module::data(Module::LIGHT);
        assert_eq!(module.value(), Module::LIGHT);
    }

    #[test]
    fn value_dark() {
        let module = Module::data(Module::DARK);
        assert_eq!(module.value(), Module::DARK);
    }

    #[test]
    fn set() {
        let mut module = Module::data(Module::LIGHT);
        module.set(Module::DARK);
        assert_eq!(module.value(), Module::DARK);
    }
}
