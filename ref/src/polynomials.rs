//! Is used to compute ECC (Error Correction Coding)

#![deny(unsafe_code)]
#![warn(missing_docs)]

use crate::hardcode;
use crate::polynomials;
use crate::{Version, ECL};

/// Used in the ring, convert a^x using `LOG[x % 255]` to it's decimal Galois-Field value
const LOG: [u8; 256] = [
    1, 2, 4, 8, 16, 32, 64, 128, 29, 58, 116, 232, 205, 135, 19, 38, 76, 152, 45, 90, 180, 117,
    234, 201, 143, 3, 6, 12, 24, 48, 96, 192, 157, 39, 78, 156, 37, 74, 148, 53, 106, 212, 181,
    119, 238, 193, 159, 35, 70, 140, 5, 10, 20, 40, 80, 160, 93, 186, 105, 210, 185, 111, 222, 161,
    95, 190, 97, 194, 153, 47, 94, 188, 101, 202, 137, 15, 30, 60, 120, 240, 253, 231, 211, 187,
    107, 214, 177, 127, 254, 225, 223, 163, 91, 182, 113, 226, 217, 175, 67, 134, 17, 34, 68, 136,
    13, 26, 52, 104, 208, 189, 103, 206, 129, 31, 62, 124, 248, 237, 199, 147, 59, 118, 236, 197,
    151, 51, 102, 204, 133, 23, 46, 92, 184, 109, 218, 169, 79, 158, 33, 66, 132, 21, 42, 84, 168,
    77, 154, 41, 82, 164, 85, 170, 73, 146, 57, 114, 228, 213, 183, 115, 230, 209, 191, 99, 198,
    145, 63, 126, 252, 229, 215, 179, 123, 246, 241, 255, 227, 219, 171, 75, 150, 49, 98, 196, 149,
    55, 110, 220, 165, 87, 174, 65, 130, 25, 50, 100, 200, 141, 7, 14, 28, 56, 112, 224, 221, 167,
    83, 166, 81, 162, 89, 178, 121, 242, 249, 239, 195, 155, 43, 86, 172, 69, 138, 9, 18, 36, 72,
    144, 61, 122, 244, 245, 247, 243, 251, 235, 203, 139, 11, 22, 44, 88, 176, 125, 250, 233, 207,
    131, 27, 54, 108, 216, 173, 71, 142, 1,
];

/// Reverses a ring value, converts decimal value x using `ANTILOG[x % 255]` to it's alpha power value
const ANTILOG: [u8; 256] = [
    175, 0, 1, 25, 2, 50, 26, 198, 3, 223, 51, 238, 27, 104, 199, 75, 4, 100, 224, 14, 52, 141,
    239, 129, 28, 193, 105, 248, 200, 8, 76, 113, 5, 138, 101, 47, 225, 36, 15, 33, 53, 147, 142,
    218, 240, 18, 130, 69, 29, 181, 194, 125, 106, 39, 249, 185, 201, 154, 9, 120, 77, 228, 114,
    166, 6, 191, 139, 98, 102, 221, 48, 253, 226, 152, 37, 179, 16, 145, 34, 136, 54, 208, 148,
    206, 143, 150, 219, 189, 241, 210, 19, 92, 131, 56, 70, 64, 30, 66, 182, 163, 195, 72, 126,
    110, 107, 58, 40, 84, 250, 133, 186, 61, 202, 94, 155, 159, 10, 21, 121, 43, 78, 212, 229, 172,
    115, 243, 167, 87, 7, 112, 192, 247, 140, 128, 99, 13, 103, 74, 222, 237, 49, 197, 254, 24,
    227, 165, 153, 119, 38, 184, 180, 124, 17, 68, 146, 217, 35, 32, 137, 46, 55, 63, 209, 91, 149,
    188, 207, 205, 144, 135, 151, 178, 220, 252, 190, 97, 242, 86, 211, 171, 20, 42, 93, 158, 132,
    60, 57, 83, 71, 109, 65, 162, 31, 45, 67, 216, 183, 123, 164, 118, 196, 23, 73, 236, 127, 12,
    111, 246, 108, 161, 59, 82, 41, 157, 85, 170, 251, 96, 134, 177, 187, 204, 62, 90, 203, 89, 95,
    176, 156, 169, 160, 81, 11, 245, 22, 235, 122, 117, 44, 215, 79, 174, 213, 233, 230, 231, 173,
    232, 116, 214, 244, 234, 168, 80, 88, 175,
];

/// Return a string of human readable polynomial
///
/// `[0, 75, 249, 78, 6]` => "α0x4 + α75x3 + α249x2 + α78x + α6"
#[cfg(test)]
pub fn generated_to_string(poly: &[u8]) -> String {
    let mut s = String::new();
    let length = poly.len();

    for (i, item) in poly.iter().enumerate() {
        s.push_str(&format!(
            "α{}{}",
            item,
            &match length - i - 1 {
                0 => String::new(),
                1 => String::from("x + "),
                n => format!("x{} + ", n),
            },
        ));
    }

    s
}

/// Takes an array and divides it by the other in a Galois Field (256)
/// ```txt
/// from: [ 32,  91,  11, 120, 209, 114, 220,  77,  67,  64, 236,
///         17, 236,  17, 236,  17] (integer)
/// by  :                          [  0, 251,  67,  46,  61, 118,
///         70,  64,  94,  32,  45] (alpha)
/// ```
///
/// `from` should be of length `from.len() + by.len()`, so we pad zeroes, like so:
/// ```txt
/// from: [ 32,  91,  11, 120, 209, 114, 220,  77,  67,  64, 236,
///         17, 236,  17, 236,  17,   0, ..eight..,   0] (integer)
/// ```
///
/// Then the actual division takes place
/// We convert `from` from INTEGER to ALPHA
pub fn division(from: &[u8], by: &[u8]) -> [u8; 255] {
    let mut from_mut = [0; 255];
    let start = 256 - from.len() - by.len();

    from_mut[start..(256 - by.len())].copy_from_slice(&from[..((256 - by.len()) - start)]);

    for i in start..start + from.len() {
        if from_mut[i] == 0 {
            continue;
        }

        let alpha = ANTILOG[from_mut[i] as usize];
        for j in 0..by.len() {
            let tmp = by[j] as usize + alpha as usize;
            from_mut[i + j] ^= LOG[tmp % 255];
        }
    }

    from_mut
}

/// Uses the data and error(generator polynomial) to compute the divisions
/// for each block.
pub fn structure(data: &[u8], quality: ECL, version: Version) -> [u8; 5430] {
    const MAX_ERROR: usize = 30;
    const MAX_GROUP_COUNT: usize = 81;
    const MAX_DATABITS: usize = 3000;

    // Need to find a more accurate way to do this.
    // let mut interleaved_data = vec![0; 0];

    let error = hardcode::get_polynomial(version, quality);

    let [(g1_count, g1_size), (g2_count, g2_size)] = hardcode::ecc_to_groups(quality, version);
    let groups_count_total = g1_count + g2_count;

    let mut interleaved_data = [0; MAX_DATABITS + MAX_ERROR * MAX_GROUP_COUNT];

    let start_error_idx = hardcode::data_codewords(version, quality);

    for i in 0..g1_count {
        let start_idx = i * g1_size;
        let division = polynomials::division(&data[start_idx..start_idx + g1_size], error);

        for j in 0..error.len() - 1 {
            interleaved_data[start_error_idx + j * groups_count_total + i] =
                division[256 - error.len() + j];
        }
    }

    for i in 0..g2_count {
        let start_idx = g1_size * g1_count + i * g2_size;
        let division = polynomials::division(&data[start_idx..start_idx + g2_size], error);

        for j in 0..error.len() - 1 {
            interleaved_data[start_error_idx + j * groups_count_total + i + g1_count] =
                division[256 - error.len() + j];
        }
    }

    let mut push_idx = 0;
    let max = core::cmp::max(g1_size, g2_size);

    for i in 0..max {
        if i < g1_size {
            for j in 0..g1_count {
                let idx = j * g1_size + i;
                interleaved_data[push_idx] = data[idx];
                push_idx += 1;
            }
        }
        if i < g2_size {
            for j in 0..g2_count {
                let idx = j * g2_size + i + g1_size * g1_count;
                interleaved_data[push_idx] = data[idx];
                push_idx += 1;
            }
        }
    }

    interleaved_data
}
