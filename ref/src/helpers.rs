//! Matrix helpers functions
#![deny(unsafe_code)]
#![warn(missing_docs)]

use crate::module::Module;
use crate::QRCode;

/// Used to print a ` ` (space)
const EMPTY: char = ' ';
/// Used to print a `█`
const BLOCK: char = '█';
/// Used to print a `▀`
const TOP: char = '▀';
/// Used to print a `▄`
const BOTTOM: char = '▄';

/// Helper to print two lines at the same time
fn print_line(line1: &[Module], line2: &[Module], size: usize) -> String {
    let mut line = String::with_capacity(size);
    for i in 0..size {
        match (line1[i].value(), line2[i].value()) {
            (true, true) => line.push(EMPTY),
            (true, false) => line.push(BOTTOM),
            (false, true) => line.push(TOP),
            (false, false) => line.push(BLOCK),
        }
    }
    line
}

/// Prints a matrix with margins
pub fn print_matrix_with_margin(qr: &QRCode) -> String {
    let mut out = String::new();

    let line = print_line(
        &[Module::empty(true); 177],
        &[Module::empty(false); 177],
        qr.size,
    );

    out.push(BOTTOM);
    out.push_str(&line);
    out.push_str(&format!("{BOTTOM}\n"));

    // Black background
    for i in (0..qr.size - 1).step_by(2) {
        let line = print_line(&qr[i], &qr[i + 1], qr.size);
        out.push(BLOCK);
        out.push_str(&line);
        out.push_str(&format!("{BLOCK}\n"));
    }

    let line = print_line(&qr[qr.size - 1], &[Module::empty(false); 177], qr.size);
    out.push(BLOCK);
    out.push_str(&line);
    out.push(BLOCK);

    out
}

#[cfg(test)]
use crate::{compact::CompactQR, Version};

/// Convert a vector of u8 to it's representation in bits
///
/// If bits are required by the QR code (referring to 8.6 of the spec), they are added to the end of the vector.
///
/// ## Example
/// { 101 } => "01100101"
#[cfg(test)]
pub fn binary_to_binarystring_version(binary: [u8; 5430], version: Version) -> CompactQR {
    let max = version.max_bytes() * 8;
    CompactQR::from_array(&binary, max + version.missing_bits())
}
