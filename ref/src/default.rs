//! Creates the default empty `QRCode` (no data)
#![deny(unsafe_code)]
#![warn(missing_docs)]

use crate::datamasking::Mask;
use crate::module::Module;
use crate::version::Version;
use crate::{hardcode, QRCode, ECL};

/// Size of FIP (Finder Patterns)
const POSITION_SIZE: usize = 7;

pub fn transpose(qr: &QRCode) -> QRCode {
    let mut transpose = qr.clone();

    for i in 0..qr.size {
        for j in i + 1..qr.size {
            transpose[i][j] = qr[j][i];
            transpose[j][i] = qr[i][j];
        }
    }

    transpose
}

pub fn create_matrix(version: Version) -> QRCode {
    let size = version.size();
    let mut qr = QRCode::default(size);

    create_matrix_pattern(&mut qr);
    create_matrix_timing(&mut qr);
    create_matrix_dark_module(&mut qr);
    create_matrix_alignments(&mut qr, version);
    create_matrix_version_info(&mut qr, version);
    create_matrix_empty(&mut qr);

    let n: usize = qr.size;

    // Format information is not placed on the matrix yet
    // But we fill it anyway with garbage data to make it easier for placement
    {
        if (version as usize) < (Version::V01 as usize) {
            return qr;
        }

        for i in 0..=5 {
            // Top left
            qr[8][i] = Module::format(Module::LIGHT);
            qr[i][8] = Module::format(Module::LIGHT);

            // Top right
            qr[8][n - 1 - i] = Module::format(Module::LIGHT);

            // Bottom left
            qr[n - 1 - i][8] = Module::format(Module::LIGHT);
        }

        // Top left
        qr[8][7] = Module::format(Module::LIGHT);
        qr[8][8] = Module::format(Module::LIGHT);
        qr[7][8] = Module::format(Module::LIGHT);

        // Top right
        qr[8][n - 1 - 6] = Module::format(Module::LIGHT);
        qr[8][n - 1 - 7] = Module::format(Module::LIGHT);

        // Bottom left
        qr[n - 1 - 6][8] = Module::format(Module::LIGHT);
    }

    qr
}

/// Adds the 3 needed squares
pub fn create_matrix_pattern(qr: &mut QRCode) {
    let length = qr.size;
    let offsets = [
        (0, 0),
        (length - POSITION_SIZE, 0),
        (0, length - POSITION_SIZE),
    ];

    // Required pattern (4.1 Positions)
    for (y, x) in offsets {
        // Border
        for j in 0..=6 {
            qr[y][j + x] = Module::finder_pattern(Module::DARK);
            qr[6 + y][j + x] = Module::finder_pattern(Module::DARK);

            qr[j + y][x] = Module::finder_pattern(Module::DARK);
            qr[j + y][6 + x] = Module::finder_pattern(Module::DARK);
        }

        for j in 1..=5 {
            qr[y + 1][j + x] = Module::finder_pattern(Module::LIGHT);
            qr[5 + y][j + x] = Module::finder_pattern(Module::LIGHT);

            qr[j + y][x + 1] = Module::finder_pattern(Module::LIGHT);
            qr[j + y][5 + x] = Module::finder_pattern(Module::LIGHT);
        }

        for j in 2..=4 {
            qr[j + y][2 + x] = Module::finder_pattern(Module::DARK);
            qr[j + y][3 + x] = Module::finder_pattern(Module::DARK);
            qr[j + y][4 + x] = Module::finder_pattern(Module::DARK);
        }
    }
}

/// Adds the two lines of Timing patterns
pub fn create_matrix_timing(qr: &mut QRCode) {
    let length = qr.size;
    // Required pattern (4.3 Timing)
    for i in POSITION_SIZE + 1..length - POSITION_SIZE {
        let value = if (POSITION_SIZE + 1) % 2 == i % 2 {
            Module::DARK
        } else {
            Module::LIGHT
        };

        qr[POSITION_SIZE - 1][i] = Module::timing(value);
        qr[i][POSITION_SIZE - 1] = Module::timing(value);
    }
}

/// Adds the forever present pixel
pub fn create_matrix_dark_module(qr: &mut QRCode) {
    // Dark module
    let n: usize = qr.size;
    qr[n - 8][8] = Module::dark(Module::DARK);
}

/// Adds the smaller squares if needed
pub fn create_matrix_alignments(qr: &mut QRCode, version: Version) {
    if let Version::V01 = version {
        return;
    }

    // Alignments (smaller cubes)
    let alignment_patterns = version.alignment_patterns_grid();
    let max = alignment_patterns.len() - 1;

    for (i, &alignment_y) in alignment_patterns.iter().enumerate() {
        for (j, &alignment_x) in alignment_patterns.iter().enumerate() {
            if i == 0 && (j == max || j == 0) || (i == max && j == 0) {
                continue;
            }

            let y = alignment_y - 2;
            let x = alignment_x - 2;

            for offset in 0..=4 {
                qr[y][x + offset] = Module::alignment(Module::DARK);
                qr[y + 4][x + offset] = Module::alignment(Module::DARK);

                qr[y + offset][x] = Module::alignment(Module::DARK);
                qr[y + offset][x + 4] = Module::alignment(Module::DARK);
            }

            let y = alignment_y - 1;
            let x = alignment_x - 1;

            for offset in 0..=2 {
                qr[y][x + offset] = Module::alignment(Module::LIGHT);
                qr[y + 2][x + offset] = Module::alignment(Module::LIGHT);

                qr[y + offset][x] = Module::alignment(Module::LIGHT);
                qr[y + offset][x + 2] = Module::alignment(Module::LIGHT);
            }

            qr[alignment_y][alignment_x] = Module::alignment(Module::DARK);
        }
    }
}

/// Adds the version information if needed
pub fn create_matrix_version_info(qr: &mut QRCode, version: Version) {
    if (version as usize) < (Version::V07 as usize) {
        return;
    }

    let version_info = version.information();

    let n: usize = qr.size;

    for i in 0..=2 {
        for j in 0..=5 {
            let shift_i = 2 - i;
            let shift_j = 5 - j;
            let shift: u32 = 1 << ((5 - shift_j) * 3 + (2 - shift_i));

            let value = (version_info & shift) != 0;
            qr[j][n - 11 + i] = Module::version(value);
            qr[n - 11 + i][j] = Module::version(value);
        }
    }
}

/// Adds the format information if needed
pub fn create_matrix_format_info(qr: &mut QRCode, quality: ECL, mask: Mask) {
    let format_info = hardcode::ecm_to_format_information(quality, mask);

    let n: usize = qr.size;

    for i in (0..=5).rev() {
        let shift = 1 << (i + 9);
        let value = (format_info & shift) != 0;
        qr[8][5 - i] = Module::format(value);
        qr[n - 6 + i][8] = Module::format(value);
    }

    for i in 0..=5 {
        let shift = 1 << i;
        let value = (format_info & shift) != 0;
        qr[i][8] = Module::format(value);
        qr[8][n - i - 1] = Module::format(value);
    }

    {
        let shift = 1 << 8;
        let value = (format_info & shift) != 0;
        // Six on left
        qr[8][7] = Module::format(value);
        // Six on bottom
        qr[n - 7][8] = Module::format(value);
    }
    {
        let shift = 1 << 7;
        let value = (format_info & shift) != 0;
        // Seven on left
        qr[8][8] = Module::format(value);
        // Seven on right
        qr[8][n - 8] = Module::format(value);
    }
    {
        let shift = 1 << 6;
        let value = (format_info & shift) != 0;
        // Height on left
        qr[7][8] = Module::format(value);
        // Height on right
        qr[8][n - 7] = Module::format(value);
    }
}

/// Adds the space between finder patterns and data
fn create_matrix_empty(qr: &mut QRCode) {
    let n: usize = qr.size;

    for i in 0..=7 {
        // Top left
        qr[i][7] = Module::empty(Module::LIGHT);
        qr[7][i] = Module::empty(Module::LIGHT);

        // Bottom left
        qr[n - 8 + i][7] = Module::empty(Module::LIGHT);
        qr[n - 8][i] = Module::empty(Module::LIGHT);

        // Top right
        qr[i][n - 8] = Module::empty(Module::LIGHT);
        qr[7][n - 8 + i] = Module::empty(Module::LIGHT);
    }
}

#[cfg(test)]
pub fn create_mat_from_bool<const N: usize>(bool_mat: &[[bool; N]; N]) -> QRCode {
    let mut mat = create_matrix(Version::from_n(N));

    for (i, row) in bool_mat.iter().enumerate() {
        for (j, &value) in row.iter().enumerate() {
            mat[i][j].set(value);
        }
    }

    mat
}
