//! Module `qr` is the entrypoint to start making `QRCodes`

use crate::module::Module;
use core::fmt::{Debug, Formatter};
use core::ops::{Index, IndexMut};

use crate::datamasking::Mask;
use crate::encode::Mode;
#[cfg(not(feature = "wasm-bindgen"))]
use crate::helpers;
use crate::{encode, Version, ECL};

const QR_MAX_WIDTH: usize = 177;
const QR_MAX_MODULES: usize = QR_MAX_WIDTH * QR_MAX_WIDTH;

/// A `QRCode` can be created using [`QRBuilder`]. Simple API for simple usage.
/// If you need to use `QRCode` directly, please file an [issue on
/// github](https://github.com/erwanvivien/fast_qr) explaining your use case.
///
/// Contains all needed information about the `QRCode`.
/// This is the main struct of the crate.
///
/// It contains the matrix of the `QRCode`, stored as a one-dimensional array.
#[derive(Clone)]
pub struct QRCode {
    /// This array length is of size `177 x 177`. It is using a fixed size
    /// array simply because of performance.
    ///
    /// # Other data type possible:
    /// - Templated Matrix was faster but crate size was huge.
    /// - Vector using `with_capacity`, really bad.
    pub data: [Module; QR_MAX_MODULES],
    /// Width & Height of QRCode. If manually set, should be `version * 4 + 17`, `version` going
    /// from 1 to 40 both included.
    pub size: usize,

    /// Version of the `QRCode`, impacts the size.
    ///
    /// `None` will optimize Version according to ECL and Mode
    pub version: Option<Version>,
    /// Defines how powerful `QRCode` redundancy should be or how much percent of a QRCode can be
    /// recovered.
    ///
    /// - `ECL::L`: 7%
    /// - `ECL::M`: 15%
    /// - `ECL::Q`: 25%
    /// - `ELC::H`: 30%
    ///
    /// `None` will set ECL to Quartile (`ELC::Q`)
    pub ecl: Option<ECL>,

    /// Changes the final pattern used.
    ///
    /// None will find the best suited mask.
    pub mask: Option<Mask>,
    /// Mode defines which data is being parsed, between Numeric, AlphaNumeric & Byte.
    ///
    /// `None` will optimize Mode according to user input.
    ///
    /// ## Note
    /// Kanji mode is not supported (yet).
    pub mode: Option<Mode>,
}

impl Debug for QRCode {
    fn fmt(&self, f: &mut Formatter<'_>) -> core::fmt::Result {
        f.debug_struct("QRCode")
            .field("size", &self.size)
            .field("version", &self.version)
            .field("ecl", &self.ecl)
            .field("mask", &self.mask)
            .field("mode", &self.mode)
            .finish_non_exhaustive()
    }
}

impl QRCode {
    /// A default `QRCode` will have all it's fields as `None` and a default Matrix filled with `Module::LIGHT`.
    #[must_use]
    pub const fn default(size: usize) -> Self {
        QRCode {
            data: [Module::data(Module::LIGHT); QR_MAX_MODULES],
            size,
            version: None,
            ecl: None,
            mask: None,
            mode: None,
        }
    }
}

impl Index<usize> for QRCode {
    type Output = [Module];

    fn index(&self, index: usize) -> &Self::Output {
        &self.data[index * self.size..(index + 1) * self.size]
    }
}

impl IndexMut<usize> for QRCode {
    fn index_mut(&mut self, index: usize) -> &mut Self::Output {
        &mut self.data[index * self.size..(index + 1) * self.size]
    }
}

/// Contains different error when [`QRCode`] could not be created
pub enum QRCodeError {
    /// If data if too large to be encoded (refer to Table 7-11 of the spec or [an online table](https://fast-qr.com/blog/tables/ecl))
    EncodedData,
    /// Specified version too small to contain data
    SpecifiedVersion,
}

// We don't want to use `std::error::Error` on wasm32
impl std::error::Error for QRCodeError {}

impl std::fmt::Display for QRCodeError {
    fn fmt(&self, f: &mut Formatter<'_>) -> core::fmt::Result {
        match self {
            QRCodeError::EncodedData => f.write_str("Data too big to be encoded"),
            QRCodeError::SpecifiedVersion => {
                f.write_str("Specified version too low to contain data")
            }
        }
    }
}

impl Debug for QRCodeError {
    fn fmt(&self, f: &mut Formatter<'_>) -> core::fmt::Result {
        match self {
            QRCodeError::EncodedData => f.write_str("Data too big to be encoded"),
            QRCodeError::SpecifiedVersion => {
                f.write_str("Specified version too low to contain data")
            }
        }
    }
}

impl QRCode {
    /// Creates a new `QRCode` from a ECL / version
    ///
    /// # Errors
    /// - `QRCodeError::EncodedData` if `input` is too large to be encoded
    /// - `QRCodeError::SpecifiedVersion` if specified `version` is too small to contain data
    pub(crate) fn new(
        input: &[u8],
        ecl: Option<ECL>,
        v: Option<Version>,
        mode: Option<Mode>,
        mut mask: Option<Mask>,
    ) -> Result<Self, QRCodeError> {
        use crate::placement::create_matrix;

        let mode = mode.unwrap_or_else(|| encode::best_encoding(input));
        let level = ecl.unwrap_or(ECL::Q);

        let version = match Version::get(mode, level, input.len()) {
            Some(version) => version,
            None => return Err(QRCodeError::EncodedData),
        };
        let version = match v {
            Some(user_version) if user_version as usize >= version as usize => user_version,
            None => version,
            Some(_) => return Err(QRCodeError::SpecifiedVersion),
        };

        let out = create_matrix(input, level, mode, version, &mut mask);
        Ok(out)
    }

    /// Prints the `QRCode` to the terminal
    #[must_use]
    #[cfg(not(feature = "wasm-bindgen"))]
    pub fn to_str(&self) -> String {
        helpers::print_matrix_with_margin(self)
    }

    /// Prints the `QRCode` to the terminal
    #[cfg(not(feature = "wasm-bindgen"))]
    pub fn print(&self) {
        println!("{}", helpers::print_matrix_with_margin(self));
    }
}

/// Builder struct, makes it easier to create a [`QRCode`].
///
/// # Example
/// ```rust
/// use fast_qr::QRBuilder;
/// use fast_qr::{Mask, ECL, Version};
///
/// // Creates a `QRCode` with a forced `version`, `ecl` and/or `mask`
/// let input = String::from("Hello World!");
/// let qr = QRBuilder::new(input)
///     // .version(Version::V05)
///     // .ecl(ECL::H)
///     // .mask(Mask::Checkerboard)
///     .build();
/// ```
pub struct QRBuilder {
    input: Vec<u8>,
    ecl: Option<ECL>,
    mode: Option<Mode>,
    version: Option<Version>,
    mask: Option<Mask>,
}

impl QRBuilder {
    /// Creates an instance of `QRBuilder` with default parameters
    #[must_use]
    pub fn new<I: Into<Vec<u8>>>(input: I) -> QRBuilder {
        QRBuilder {
            input: input.into(),
            mask: None,
            mode: None,
            version: None,
            ecl: None,
        }
    }

    /// Forces the Mode
    pub fn mode(&mut self, mode: Mode) -> &mut Self {
        self.mode = Some(mode);
        self
    }

    /// Forces the Encoding Level
    pub fn ecl(&mut self, ecl: ECL) -> &mut Self {
        self.ecl = Some(ecl);
        self
    }

    /// Forces the version
    pub fn version(&mut self, version: Version) -> &mut Self {
        self.version = Some(version);
        self
    }

    /// Forces the mask, should very rarely be used
    pub fn mask(&mut self, mask: Mask) -> &mut Self {
        self.mask = Some(mask);
        self
    }

    /// Computes a [`QRCode`] with given parameters
    ///
    /// # Errors
    /// - `QRCodeError::EncodedData` if `input` is too large to be encoded. See [an online table](https://fast-qr.com/blog/tables/ecl) for more info.
    /// - `QRCodeError::SpecifiedVersion` if specified `version` is too small to contain data
    pub fn build(&self) -> Result<QRCode, QRCodeError> {
        QRCode::new(&self.input, self.ecl, self.version, self.mode, self.mask)
    }
}
