#![cfg_attr(docsrs, feature(doc_cfg))]
#![warn(missing_docs)]
//! # Easy to use fast QRCode generator
//!
//! More examples can be found on [GitHub](https://github.com/erwanvivien/fast_qr/tree/master/examples).
//!
//! ## Converts [`QRCode`] to Unicode
//!
//! ```rust
//! # use fast_qr::convert::ConvertError;
//! use fast_qr::qr::QRBuilder;
//!
//! # fn main() -> Result<(), ConvertError> {
//! // QRBuilder::new can fail if content is too big for version,
//! // please check before unwrapping.
//! let qrcode = QRBuilder::new("https://example.com/")
//!     .build()
//!     .unwrap();
//!
//! let str = qrcode.to_str(); // .print() exists
//! println!("{}", str);
//!
//! #     Ok(())
//! # }
//! ```
//!
//! ## Converts [`QRCode`] to SVG
//!
//! ```rust
//! # use fast_qr::convert::ConvertError;
//! use fast_qr::convert::{svg::SvgBuilder, Builder, Shape};
//! use fast_qr::qr::QRBuilder;
//!
//! # fn main() -> Result<(), ConvertError> {
//! // QRBuilder::new can fail if content is too big for version,
//! // please check before unwrapping.
//! let qrcode = QRBuilder::new("https://example.com/")
//!     .build()
//!     .unwrap();
//!
//! let _svg = SvgBuilder::default()
//!     .shape(Shape::RoundedSquare)
//!     .to_file(&qrcode, "out.svg");
//! #     std::fs::remove_file("out.svg");
//!
//! #     Ok(())
//! # }
//! ```
//!
//! ## Converts [`QRCode`] to an image
//!
//! ```rust
//! # use fast_qr::convert::ConvertError;
//! use fast_qr::convert::{image::ImageBuilder, Builder, Shape};
//! use fast_qr::qr::QRBuilder;
//!
//! # fn main() -> Result<(), ConvertError> {
//! // QRBuilder::new can fail if content is too big for version,
//! // please check before unwrapping.
//! let qrcode = QRBuilder::new("https://example.com/")
//!     .build()
//!     .unwrap();
//!
//! let _img = ImageBuilder::default()
//!     .shape(Shape::RoundedSquare)
//!     .background_color([255, 255, 255, 0]) // transparency
//!     .fit_width(600)
//!     .to_file(&qrcode, "out.png");
//! #     std::fs::remove_file("out.png");
//!
//! #     Ok(())
//! # }
//! ```

pub use crate::datamasking::Mask;
pub use crate::ecl::ECL;
pub use crate::encode::Mode;
pub use crate::module::{Module, ModuleType};
pub use crate::qr::{QRBuilder, QRCode};
pub use crate::version::Version;

mod compact;
#[doc(hidden)]
pub mod datamasking;

pub mod convert;
mod default;
mod ecl;
mod encode;
mod hardcode;
#[cfg(not(feature = "wasm-bindgen"))]
mod helpers;
mod module;
mod placement;
mod polynomials;
#[macro_use]
pub mod qr;
mod score;
mod version;

#[cfg(test)]
mod tests;

#[cfg(target_arch = "wasm32")]
mod wasm;

#[cfg(target_arch = "wasm32")]
pub use wasm::*;

#[cfg(all(fast_qr_verif, not(fast_qr_verif_wasm_only)))]
#[doc(hidden)]
#[allow(missing_docs)]
pub mod verif;

#[cfg(all(fast_qr_verif, not(target_arch = "wasm32"), feature = "svg"))]
#[path = "wasm.rs"]
#[doc(hidden)]
#[allow(missing_docs)]
pub mod wasm_host;
