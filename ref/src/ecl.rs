//! Contains all different levels of quality.
//! And allows to find easily max bits per version/quality pair

#![deny(unsafe_code)]
#![warn(missing_docs)]

use std::fmt::Write;

/// Error Correction Coding has 4 levels
#[derive(Copy, Clone, Debug)]
#[allow(dead_code)]
#[cfg_attr(feature = "wasm-bindgen", wasm_bindgen::prelude::wasm_bindgen)]
pub enum ECL {
    /// Low, 7%
    L,
    /// Medium, 15%
    M,
    /// Quartile, 25%
    Q,
    /// High, 30%
    H,
}

impl core::fmt::Display for ECL {
    fn fmt(&self, f: &mut core::fmt::Formatter) -> core::fmt::Result {
        match self {
            ECL::L => f.write_char('L'),
            ECL::M => f.write_char('M'),
            ECL::Q => f.write_char('Q'),
            ECL::H => f.write_char('H'),
        }
    }
}
