use crate::QRCode;
#[cfg(feature = "svg")]
use crate::{convert, Version, ECL};
#[cfg(feature = "wasm-bindgen")]
use wasm_bindgen::prelude::*;

fn bool_to_u8(qr: QRCode) -> Vec<u8> {
    let dim = qr.size;
    qr.data[..dim * dim]
        .iter()
        .map(|x| u8::from(x.value()))
        .collect()
}

/// Generate a QR code from a string. All parameters are automatically set.
#[cfg_attr(feature = "wasm-bindgen", wasm_bindgen)]
#[must_use]
pub fn qr(content: &str) -> Vec<u8> {
    let qrcode = QRCode::new(content.as_bytes(), None, None, None, None);
    qrcode.map(bool_to_u8).unwrap_or(Vec::new())
}

/// Configuration for the SVG output.
#[cfg(feature = "svg")]
#[cfg_attr(feature = "wasm-bindgen", wasm_bindgen)]
#[derive(Debug, Clone)]
pub struct SvgOptions {
    shape: convert::Shape,
    module_color: Vec<u8>,
    margin: usize,

    ecl: Option<ECL>,
    version: Option<Version>,

    background_color: Vec<u8>,

    image: String,
    image_background_color: Vec<u8>,
    image_background_shape: convert::ImageBackgroundShape,
    image_size: Vec<f64>,
    image_position: Vec<f64>,
}

#[cfg_attr(feature = "wasm-bindgen", wasm_bindgen)]
#[cfg(feature = "svg")]
impl SvgOptions {
    fn color_to_code(color: String) -> Vec<u8> {
        let mut color = color;
        if color.starts_with('#') {
            color.remove(0);
        }
        let color = color.as_bytes();
        let color = color.chunks_exact(2);
        // Anything that is not a pair of hexadecimal digits makes the whole color invalid (ignored by the setters)
        let color = color.map(|x| {
            std::str::from_utf8(x)
                .ok()
                .and_then(|x| u8::from_str_radix(x, 16).ok())
        });

        let mut color = color.collect::<Option<Vec<u8>>>().unwrap_or_default();
        if color.len() == 3 {
            color.push(255);
        }

        color
    }

    /// Updates the shape of the QRCode modules.
    pub fn shape(self, shape: convert::Shape) -> Self {
        Self { shape, ..self }
    }

    /// Updates the module color of the QRCode. Tales a string in the format `#RRGGBB[AA]`.
    pub fn module_color(self, module_color: String) -> Self {
        let code = Self::color_to_code(module_color);
        if code.len() != 4 {
            return self;
        }
        Self {
            module_color: code,
            ..self
        }
    }

    /// Updates the margin of the QRCode.
    pub fn margin(self, margin: usize) -> Self {
        Self { margin, ..self }
    }

    /// Updates the background color of the QRCode. Tales a string in the format `#RRGGBB[AA]`.
    pub fn background_color(self, background_color: String) -> Self {
        let code = Self::color_to_code(background_color);
        if code.len() != 4 {
            return self;
        }
        Self {
            background_color: code,
            ..self
        }
    }

    /// Updates the image of the QRCode. Takes base64 or a url.
    pub fn image(self, image: String) -> Self {
        Self { image, ..self }
    }

    /// Updates the background color of the image. Takes a string in the format `#RRGGBB[AA]`.
    pub fn image_background_color(self, image_background_color: String) -> Self {
        let code = Self::color_to_code(image_background_color);
        if code.len() != 4 {
            return self;
        }

        Self {
            image_background_color: code,
            ..self
        }
    }

    /// Updates the shape of the image background. Takes an convert::ImageBackgroundShape.
    pub fn image_background_shape(
        self,
        image_background_shape: convert::ImageBackgroundShape,
    ) -> Self {
        Self {
            image_background_shape,
            ..self
        }
    }

    /// Updates the size of the image. Takes a size and a gap (unit being module size).
    pub fn image_size(self, size: f64, gap: f64) -> Self {
        Self {
            image_size: vec![size, gap],
            ..self
        }
    }

    /// Updates the position of the image. Takes an array [x, y] (unit being module size).
    pub fn image_position(self, image_position: Vec<f64>) -> Self {
        if image_position.len() != 2 {
            return self;
        }

        Self {
            image_position,
            ..self
        }
    }

    /// Updates the error correction level of the QRCode (can increase the size of the QRCode)
    pub fn ecl(self, ecl: ECL) -> Self {
        Self {
            ecl: Some(ecl),
            ..self
        }
    }

    /// Forces the version of the QRCode
    pub fn version(self, version: Version) -> Self {
        Self {
            version: Some(version),
            ..self
        }
    }
}

#[cfg_attr(feature = "wasm-bindgen", wasm_bindgen)]
#[cfg(feature = "svg")]
impl SvgOptions {
    /// Creates a new SvgOptions object.
    #[cfg_attr(feature = "wasm-bindgen", wasm_bindgen(constructor))]
    pub fn new() -> Self {
        Self {
            shape: convert::Shape::Square,
            module_color: vec![0, 0, 0, 255],
            margin: 4,

            ecl: None,
            version: None,

            background_color: vec![255, 255, 255, 255],

            image: String::new(),
            image_background_color: vec![255, 255, 255, 255],
            image_background_shape: convert::ImageBackgroundShape::Square,
            image_size: vec![],
            image_position: vec![],
        }
    }
}

/// Generate a QR code from a string. All parameters are automatically set.
#[cfg_attr(feature = "wasm-bindgen", wasm_bindgen)]
#[cfg(feature = "svg")]
pub fn qr_svg(content: &str, options: SvgOptions) -> String {
    use crate::convert::svg::SvgBuilder;
    use crate::convert::Builder;
    let qrcode = QRCode::new(content.as_bytes(), options.ecl, options.version, None, None);

    let mut builder = SvgBuilder::default();
    builder.shape(options.shape);
    builder.margin(options.margin);
    builder.background_color(options.background_color);
    builder.module_color(options.module_color);
    if !options.image.is_empty() {
        builder.image(options.image);
    }

    builder.image_background_color(options.image_background_color);
    builder.image_background_shape(options.image_background_shape);

    if options.image_size.len() == 2 {
        let size = options.image_size[0];
        let gap = options.image_size[1];
        builder.image_size(size);
        builder.image_gap(gap);
    }

    if options.image_position.len() == 2 {
        let x = options.image_position[0];
        let y = options.image_position[1];
        builder.image_position(x, y);
    }

    qrcode
        .map(|qrcode| builder.to_str(&qrcode))
        .unwrap_or(String::new())
}
