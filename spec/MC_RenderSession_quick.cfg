SPECIFICATION Spec
CONSTANTS
  Alphabet <- MC_Alphabet
  Codes <- MC_Codes
  MaxLen = 4
CHECK_DEADLOCK FALSE
INVARIANT SessionPure
INVARIANT Replay
PROPERTY RenderReadOnly
