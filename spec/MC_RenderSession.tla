--------------------------- MODULE MC_RenderSession ---------------------------
EXTENDS RenderSession
K(op, a, c, s) == [op |-> op, a |-> a, b |-> 0, c |-> c, s |-> s]
Logo == <<108,111,103,111,46,112,110,103>>
MC_Alphabet == << K("shape", 1, <<>>, <<>>), K("shape_color", 0, <<18, 52, 86, 255>>, <<>>), K("margin", 0, <<>>, <<>>), K("margin", 7, <<>>, <<>>),
                  K("module_color", 0, <<200, 30, 40, 255>>, <<>>), K("background_color", 0, <<250, 240, 230, 255>>, <<>>),
                  K("image", 0, <<>>, Logo), K("image_background_shape", 1, <<>>, <<>>), K("image_size", 7000, <<>>, <<>>), K("image_gap", 1500, <<>>, <<>>),
                  [op |-> "image_position", a |-> 12000, b |-> 13500, c |-> <<>>, s |-> <<>>] >>
MC_Codes == {1, 2}
================================================================================
