----------------------------- MODULE RenderSession -----------------------------
(***************************************************************************)
(* One renderer builder object living through setter calls and renderings  *)
(* interleaved (convert/svg.rs, convert/image.rs: setters take &mut self,   *)
(* to_str / to_pixmap take &self).  A rendering reads the registers and the *)
(* QR code it is given, and changes neither: so the document of every       *)
(* rendering is the document a FRESH builder produces for the calls made so *)
(* far (C14, rendering half).  TLC explores every program up to MaxLen over *)
(* an abstract alphabet and exports those with at least two renderings;     *)
(* the harness replays them on real SvgBuilder / ImageBuilder objects.      *)
(***************************************************************************)
EXTENDS Render, TLC, Json
CONSTANTS Alphabet,     \* sequence of abstract setter calls (records as in the events)
          Codes,        \* set of QR code ids that can be rendered
          MaxLen
VARIABLES reg, hist, last
vars == <<reg, hist, last>>
Init == reg = RegInit /\ hist = <<>> /\ last = [kind |-> "none"] /\ PrintT(<<"ALPHABET", ToJson(Alphabet)>>)
Set(i) == /\ Len(hist) < MaxLen
          /\ reg' = Apply(reg, Alphabet[i])
          /\ hist' = Append(hist, [op |-> "set", i |-> i, code |-> 0])
          /\ last' = [kind |-> "none"]
\* to_str(&self, qr): reads, does not write
RenderOf(rg, code) == [code |-> code, layers |-> LayersOf(rg), margin |-> rg.margin, bg |-> rg.bg, dot |-> rg.dot,
                       image |-> IF rg.hasImage THEN rg.image ELSE <<>>, frame |-> <<rg.imgBg, rg.imgShape, rg.size, rg.gap, rg.pos>>]
Render(c) == /\ Len(hist) < MaxLen
             /\ last' = [kind |-> "render", obs |-> RenderOf(reg, c)]
             /\ hist' = Append(hist, [op |-> "render", i |-> 0, code |-> c])
             /\ UNCHANGED reg
Next == (\E i \in DOMAIN Alphabet : Set(i)) \/ (\E c \in Codes : Render(c))
Spec == Init /\ [][Next]_vars
\* the registers after the calls of a history, computed from scratch (what a fresh builder would hold)
FreshRegs(h) == FoldLeft(LAMBDA r, e : IF e.op = "set" THEN Apply(r, Alphabet[e.i]) ELSE r, RegInit, h)
SessionPure == last.kind = "render" => last.obs = RenderOf(FreshRegs(hist), hist[Len(hist)].code)
RenderReadOnly == [][(\E c \in Codes : Render(c)) => UNCHANGED reg]_vars
Renders(h) == Cardinality({ k \in DOMAIN h : h[k].op = "render" })
Replay == (Len(hist) >= 3 /\ hist[Len(hist)].op = "render" /\ Renders(hist) >= 2) => PrintT(<<"REPLAY", ToJson([hist |-> hist])>>)
=================================================================================
