SPECIFICATION Spec
CONSTANTS
  Alphabet <- MC_Alphabet
  MaxLen = 3
CHECK_DEADLOCK FALSE
INVARIANT TypeOK
INVARIANT HavocExact
INVARIANT Replay
