------------------------------ MODULE MC_Builder ------------------------------
EXTENDS Builder
MC_Builders == {1, 2}
MC_Threads == {1, 2}
Opts_EclMask == {"ecl", "mask"}
Opts_ModeVersion == {"mode", "version"}
Opts_EclVersion == {"ecl", "version"}
\* one builder, one thread: every sequential program (setter order, repeated builds, a setter between two builds)
MC_One == {1}
===============================================================================
