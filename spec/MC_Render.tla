------------------------------ MODULE MC_Render ------------------------------
(***************************************************************************)
(* The render layer as a machine TLC explores: a matrix (every 0/1 matrix  *)
(* of a small odd side), a builder whose setters are called in every order *)
(* up to MaxCalls, then one of the three renderers of the MODEL.  The      *)
(* predicates that Trace.tla applies to the implementation's output are    *)
(* invariants here on the model's own output: decode o render = id for     *)
(* the terminal text, cells = dark modules for every SVG layer, centre     *)
(* classes for the raster; plus, for all 40 versions x margins 0..16, a    *)
(* witness that the default-frame predicate is satisfiable.                *)
(***************************************************************************)
EXTENDS Render, TLC
CONSTANTS N, MaxCalls, Alphabet
VARIABLES mat, reg, ncalls, out
vars == <<mat, reg, ncalls, out>>
Vals(m) == [r \in 1..N |-> <<SumSeq([c \in 1..N |-> m[(r-1)*N + c] * 2^(c-1)])>>]      \* packed rows, 24 per integer
DarkM(m, r, c) == m[r*N + c + 1] = 1

\* model renderers ------------------------------------------------------
FrameWitness(n, m) == LET w == IF n < 21 THEN 1 ELSE CHOOSE x \in 1..n : x % 2 = 1 /\ 10*x < 4*n /\ x <= n - 16 /\ (10*(x+2) >= 4*n \/ x + 2 > n - 16) IN
                      [x |-> ((n + 2*m - w) \div 2) * 1000, y |-> ((n + 2*m - w) \div 2) * 1000, w |-> w * 1000, h |-> w * 1000]
SvgOf(rg, m) ==
  LET mg == rg.margin s == (N + 2*mg) * 1000
      cells == SelectSeq([i \in 1..N*N |-> IF m[i] = 1 THEN <<((i-1) % N) + mg, ((i-1) \div N) + mg>> ELSE <<-1, -1>>], LAMBDA p : p[1] >= 0)
      ls == LayersOf(rg)
      fr == FrameWitness(N, mg)
      bgRect == [x |-> 0, y |-> 0, w |-> s, h |-> s, fill |-> rg.bg.txt, rx |-> 0]
  IN [wellformed |-> 1, root |-> "svg", viewbox |-> <<0, 0, s, s>>,
      kinds |-> <<"rect">> \o [i \in 1..Len(ls) |-> "path"] \o (IF rg.hasImage THEN <<"rect", "image">> ELSE <<>>),
      rects |-> IF rg.hasImage THEN <<bgRect, [fr EXCEPT !.w = fr.w] @@ [fill |-> rg.imgBg.txt, rx |-> 0]>> ELSE <<bgRect>>,
      layers |-> [i \in 1..Len(ls) |-> [fill |-> LayerColor(rg, ls[i]).txt, stroke |-> <<>>, parsed |-> 1, cells |-> cells, strays |-> 0]],
      images |-> IF rg.hasImage THEN <<[href |-> AttrNormalize(rg.image), x |-> fr.x + 1000, y |-> fr.y + 1000, w |-> fr.w - 2000, h |-> fr.h - 2000]>> ELSE <<>>]
RasterOf(rg, m, k) ==
  LET mg == rg.margin cells == N + 2*mg
      cls(cx, cy) == IF cx >= mg /\ cx < mg + N /\ cy >= mg /\ cy < mg + N /\ DarkM(m, cy - mg, cx - mg) THEN 1 ELSE 0
      nw == (cells + 5) \div 6
      nu == (cells + 23) \div 24
  IN [w |-> k * cells, h |-> k * cells, cells |-> cells, scale_int |-> k,
      palette |-> <<Premul(rg.bg.rgba), Premul(TopColor(rg).rgba)>>,
      centre |-> [cy \in 1..cells |-> [q \in 1..nw |-> SumSeq([j \in 1..6 |-> IF 6*(q-1) + j <= cells THEN cls(6*(q-1) + j - 1, cy - 1) * 16^(j-1) ELSE 0])]],
      uniform |-> [cy \in 1..cells |-> [q \in 1..nu |-> SumSeq([j \in 1..24 |-> IF 24*(q-1) + j <= cells THEN 2^(j-1) ELSE 0])]],
      png |-> 1, png_w |-> k * cells, png_h |-> k * cells, png_equal |-> 1]

\* machine -----------------------------------------------------------------
Init == mat \in [1..N*N -> {0, 1}] /\ reg = RegInit /\ ncalls = 0 /\ out = [kind |-> "none"]
Set(i) == /\ out.kind = "none" /\ ncalls < MaxCalls
          /\ reg' = Apply(reg, Alphabet[i]) /\ ncalls' = ncalls + 1 /\ UNCHANGED <<mat, out>>
RenderText == out.kind = "none" /\ out' = [kind |-> "text", lines |-> TextOf(N, LAMBDA r, c : DarkM(mat, r, c))] /\ UNCHANGED <<mat, reg, ncalls>>
RenderSvg == out.kind = "none" /\ out' = [kind |-> "svg", obs |-> SvgOf(reg, mat)] /\ UNCHANGED <<mat, reg, ncalls>>
\* k pixels per module: original scale for k = 1, fit_width(k * cells) otherwise
RenderRaster(k) == /\ out.kind = "none"
                   /\ reg' = IF k = 1 THEN reg ELSE Apply(reg, [op |-> "fit_width", a |-> k * (N + 2*reg.margin)])
                   /\ out' = [kind |-> "raster", obs |-> RasterOf(reg, mat, k)] /\ UNCHANGED <<mat, ncalls>>
Next == (\E i \in DOMAIN Alphabet : Set(i)) \/ RenderText \/ RenderSvg \/ RenderRaster(1) \/ RenderRaster(4)
Spec == Init /\ [][Next]_vars

\* the predicates of Trace.tla as invariants of the model's own renderers; a renderer never changes the matrix
TextExact == out.kind = "text" => TextShape(N, out.lines) /\ TextBorder(N, out.lines) /\ TextModules(N, Vals(mat), out.lines)
SvgExact == out.kind = "svg" => LET o == out.obs v == Vals(mat) IN
              /\ SvgStructure(reg, N, o) /\ SvgBackground(reg, o) /\ SvgLayerCount(reg, o) /\ SvgCells(reg, N, v, o)
              /\ SvgLayerColors(reg, o) /\ SvgImage(reg, o)
RasterExact == out.kind = "raster" => LET o == out.obs v == Vals(mat) IN
              /\ RasterSide(reg, N, o) /\ RasterPng(o) /\ RasterUniform(reg, N, o)
              /\ (RasterColorsJudgeable(reg) => RasterCentres(reg, N, v, o))
RenderReadOnly == [][mat' = mat]_vars
\* the default-frame predicate is satisfiable for every version and margin 0..16 (it is not vacuous, and 40% and finder clearance agree)
FrameSatisfiable == \A v \in 1..40 : \A m \in 0..16 : LET n == 17 + 4*v fr == FrameWitness(n, m) IN
                      FrameDefault(n, m, fr, [x |-> fr.x + 1000, y |-> fr.y + 1000, w |-> fr.w - 2000, h |-> fr.h - 2000])
ASSUME FrameSatisfiable
MC_Alphabet == << [op |-> "shape", a |-> 1, c |-> <<>>, s |-> <<>>], [op |-> "shape_color", a |-> 0, c |-> <<18, 52, 86, 255>>, s |-> <<>>],
                  [op |-> "shape_color", a |-> 5, c |-> <<9, 8, 7>>, s |-> <<>>],
                  [op |-> "margin", a |-> 0, c |-> <<>>, s |-> <<>>], [op |-> "margin", a |-> 2, c |-> <<>>, s |-> <<>>],
                  [op |-> "module_color", a |-> 0, c |-> <<200, 30, 40, 255>>, s |-> <<>>], [op |-> "background_color", a |-> 0, c |-> <<250, 240, 230, 64>>, s |-> <<>>],
                  [op |-> "image", a |-> 0, c |-> <<>>, s |-> <<97, 38, 9, 98>>] >>
==============================================================================
