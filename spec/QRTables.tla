------------------------------- MODULE QRTables -------------------------------
(***************************************************************************)
(* ISO/IEC 18004 data that cannot be derived: Table 9 in compact form (EC  *)
(* codewords per block, number of blocks), the character-count widths and  *)
(* the mode indicators.  Everything else (BCH words, alignment centres,    *)
(* module counts, capacities) is computed.                                 *)
(***************************************************************************)
EXTENDS QRBase

Levels == <<"L", "M", "Q", "H">>
EcIdx(e) == CASE e = "L" -> 1 [] e = "M" -> 2 [] e = "Q" -> 3 [] e = "H" -> 4
LevelBits(e) == CASE e = "L" -> 1 [] e = "M" -> 0 [] e = "Q" -> 3 [] e = "H" -> 2
EccPerBlock == <<
 <<7,10,15,20,26,18,20,24,30,18,20,24,26,30,22,24,28,30,28,28,28,28,30,30,26,28,30,30,30,30,30,30,30,30,30,30,30,30,30,30>>,
 <<10,16,26,18,24,16,18,22,22,26,30,22,22,24,24,28,28,26,26,26,26,28,28,28,28,28,28,28,28,28,28,28,28,28,28,28,28,28,28,28>>,
 <<13,22,18,26,18,24,18,22,20,24,28,26,24,20,30,24,28,28,26,30,28,30,30,30,30,28,30,30,30,30,30,30,30,30,30,30,30,30,30,30>>,
 <<17,28,22,16,22,28,26,26,24,28,24,28,22,24,24,30,28,28,26,28,30,24,30,30,30,30,30,30,30,30,30,30,30,30,30,30,30,30,30,30>> >>
NumBlocks == <<
 <<1,1,1,1,1,2,2,2,2,4,4,4,4,4,6,6,6,6,7,8,8,9,9,10,12,12,12,13,14,15,16,17,18,19,19,20,21,22,24,25>>,
 <<1,1,1,2,2,4,4,4,5,5,5,8,9,9,10,10,11,13,14,16,17,17,18,20,21,23,25,26,28,29,31,33,35,37,38,40,43,45,47,49>>,
 <<1,1,2,2,4,4,6,6,8,8,8,10,12,16,12,17,16,18,21,20,23,23,25,27,29,34,34,35,38,40,43,45,48,51,53,56,59,62,65,68>>,
 <<1,1,2,4,4,4,5,6,8,8,11,11,16,16,18,16,19,21,25,25,25,34,30,32,35,37,40,42,45,48,51,54,57,60,63,66,70,74,77,81>> >>

Size(v) == 17 + 4*v
VersionOfSize(n) == IF n >= 21 /\ n <= 177 /\ (n - 17) % 4 = 0 THEN (n - 17) \div 4 ELSE 0

(* Annex E in closed form *)
NumAlign(v) == IF v = 1 THEN 0 ELSE (v \div 7) + 2
AlignStep(v) == IF v = 32 THEN 26 ELSE (((v*4 + NumAlign(v)*2 + 1) \div (NumAlign(v)*2 - 2)) * 2)
AlignSeq(v) == IF v = 1 THEN <<>> ELSE <<6>> \o [i \in 1..(NumAlign(v)-1) |-> v*4 + 10 - (NumAlign(v)-1-i)*AlignStep(v)]
AlignPos(v) == { AlignSeq(v)[i] : i \in 1..Len(AlignSeq(v)) }

(* number of modules of the encoding region, closed form (cross-checked against the geometric count in MC_Lemmas) *)
RawModules(v) == (16*v + 128)*v + 64
                 - (IF v >= 2 THEN (25*NumAlign(v) - 10)*NumAlign(v) - 55 ELSE 0)
                 - (IF v >= 7 THEN 36 ELSE 0)
TotalCW(v) == RawModules(v) \div 8
RemainderBits(v) == RawModules(v) % 8
EcOf(v, e) == EccPerBlock[EcIdx(e)][v]
NbOf(v, e) == NumBlocks[EcIdx(e)][v]
DataCW(v, e) == TotalCW(v) - NbOf(v, e) * EcOf(v, e)
\* data length of block b (1-based): the first nb - (total % nb) blocks are the short ones
BlockLens(v, e) == LET nb == NbOf(v, e) ec == EcOf(v, e) tot == TotalCW(v)
                   IN [b \in 1..nb |-> IF b <= nb - (tot % nb) THEN (tot \div nb) - ec ELSE (tot \div nb) - ec + 1]

(* BCH(15,5) with generator 0x537 and mask 0x5412; BCH(18,6) with generator 0x1F25 *)
BCHRem(x, gen, hi, lo) == FoldLeft(LAMBDA r, i : IF Bit(r, i) = 1 THEN r ^^ (gen * 2^(i - lo)) ELSE r, x, [k \in 1..(hi-lo+1) |-> hi + 1 - k])
BCH15(d) == ((d * 1024) + BCHRem(d * 1024, 1335, 14, 10)) ^^ 21522
BCH18(v) == (v * 4096) + BCHRem(v * 4096, 7973, 17, 12)
FormatWord(e, m) == BCH15(LevelBits(e)*8 + m)

(* modes: 0 numeric, 1 alphanumeric, 2 byte *)
ModeInd(mode) == CASE mode = 0 -> 1 [] mode = 1 -> 2 [] mode = 2 -> 4
Cci(mode, v) == CASE mode = 0 -> (IF v <= 9 THEN 10 ELSE IF v <= 26 THEN 12 ELSE 14)
                  [] mode = 1 -> (IF v <= 9 THEN 9 ELSE IF v <= 26 THEN 11 ELSE 13)
                  [] mode = 2 -> (IF v <= 9 THEN 8 ELSE 16)

PopCount(x, w) == SumSeq([k \in 1..w |-> Bit(x, k-1)])
TableLemmas ==
  /\ \A v \in 1..40 : \A e \in {"L","M","Q","H"} :
        /\ DataCW(v, e) > 0
        /\ SumSeq(BlockLens(v, e)) = DataCW(v, e)
        /\ \A b \in 1..NbOf(v, e) : BlockLens(v, e)[b] + EcOf(v, e) <= 255
        /\ (v > 1 => DataCW(v, e) > DataCW(v-1, e))
  /\ \A v \in 2..40 : Len(AlignSeq(v)) = NumAlign(v) /\ AlignSeq(v)[Len(AlignSeq(v))] = Size(v) - 7
                      /\ \A i \in 2..Len(AlignSeq(v)) : AlignSeq(v)[i] - AlignSeq(v)[i-1] >= 12 /\ AlignSeq(v)[i] % 2 = 0
  \* minimum distance 7 of the 32 format words and 8 of the 34 version words
  /\ \A a, b \in 0..31 : a < b => PopCount(BCH15(a) ^^ BCH15(b), 15) >= 7
  /\ \A a, b \in 7..40 : a < b => PopCount(BCH18(a) ^^ BCH18(b), 18) >= 8
=============================================================================
