SPECIFICATION Spec
CONSTANT MaxV = 40
CHECK_DEADLOCK FALSE
INVARIANT LemmaInv
INVARIANT BMLemma
