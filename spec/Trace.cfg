SPECIFICATION Spec
CONSTANT L = 4
POSTCONDITION Accepted
CHECK_DEADLOCK FALSE
