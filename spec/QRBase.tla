------------------------------- MODULE QRBase -------------------------------
(***************************************************************************)
(* Small arithmetic helpers shared by every module of the fast_qr          *)
(* specification.  TLC notes: every intermediate table is forced with      *)
(* TLCEval (function constructors are lazy), and folds come from the       *)
(* CommunityModules (Java overrides).                                      *)
(***************************************************************************)
EXTENDS Integers, Sequences, FiniteSets, TLC, Bitwise, SequencesExt, Functions

Range1(n) == [i \in 1..n |-> i]          \* <<1, ..., n>>
Range0(n) == [i \in 1..n |-> i - 1]      \* <<0, ..., n-1>>
Bit(x, k) == (x \div (2^k)) % 2
Max2(a, b) == IF a > b THEN a ELSE b
Min2(a, b) == IF a < b THEN a ELSE b
AbsI(x) == IF x < 0 THEN -x ELSE x
SumSeq(s) == FoldLeft(LAMBDA acc, x : acc + x, 0, s)
MinOfSeq(f) == FoldLeft(LAMBDA a, m : IF f[m] < a THEN f[m] ELSE a, f[1], Range1(Len(f)))
\* value of the w bits b(from) .. b(from+w-1), most significant first
BitsVal(b(_), from, w) == FoldLeft(LAMBDA acc, i : 2*acc + b(i), 0, [k \in 1..w |-> from + k - 1])
=============================================================================
