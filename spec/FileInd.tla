-------------------------------- MODULE FileInd --------------------------------
(***************************************************************************)
(* FileAllOrError for a rendering of ANY number of chunks L >= 1 and any   *)
(* strike offset, as an inductive invariant discharged by Apalache:        *)
(*   Init => IndInv                (--init=Init    --inv=IndInv --length=0)*)
(*   IndInv /\ Next => IndInv'     (--init=IndInit --inv=IndInv --length=1)*)
(*   IndInv => FileAllOrError      (--init=IndInit --inv=FileAllOrError --length=0)*)
(* Same step operators (FileOps) as the machine TLC explores at L = 4 and  *)
(* as the trace specification uses to judge recorded to_file calls.        *)
(***************************************************************************)
EXTENDS FileOps
VARIABLES
  \* @type: { phase: Str, written: Int, ret: Str };
  fs,
  \* @type: Str;
  fault,
  \* @type: Int;
  off
vars == <<fs, fault, off>>
ConstInit == L \in {k \in Int : k >= 1}
Init == fs = F_Init /\ fault \in Classes /\ off \in 0..L
Next == \/ (fs.phase # "done" /\ fs' = F_Step(fs, fault, off) /\ UNCHANGED <<fault, off>>)
        \/ (fs.phase = "done" /\ UNCHANGED vars)
Phases == {"start", "writing", "create_failed", "write_failed", "done"}
IndInv ==
  /\ fs.phase \in Phases /\ fs.ret \in {"none", "Ok", "Err"} /\ fault \in Classes /\ off \in 0..L /\ fs.written \in -1..L
  /\ (fs.phase = "start" => fs.written = -1 /\ fs.ret = "none")
  /\ (fs.phase = "create_failed" => fault \in CreateFaults /\ fs.written = -1 /\ fs.ret = "none")
  /\ (fs.phase = "writing" => /\ fault \notin CreateFaults /\ fs.written >= 0 /\ fs.ret = "none"
                             /\ ((fault \in WriteFaults /\ off < L) => fs.written <= off))
  /\ (fs.phase = "write_failed" => fault \in WriteFaults /\ fs.written = off /\ off < L /\ fs.ret = "none")
  /\ (fs.phase = "done" => \/ (fs.ret = "Ok" /\ fs.written = L /\ ~Struck(fault, off))
                           \/ (fs.ret = "Err" /\ Struck(fault, off) /\ fs.written < L))
IndInit == /\ fs \in [phase : Phases, written : -1..L, ret : {"none", "Ok", "Err"}]
           /\ fault \in Classes /\ off \in 0..L
           /\ IndInv
FileAllOrError == fs.phase = "done" =>
                    /\ (fs.ret = "Ok" => fs.written = L)
                    /\ (Struck(fault, off) => fs.ret = "Err")
                    /\ (~Struck(fault, off) => fs.ret = "Ok")
=============================================================================
