-------------------------------- MODULE FileIO2 --------------------------------
(* Two to_file calls in flight at once, on two DIFFERENT paths of one directory (the same stem with two extensions - the same
   code exported as SVG and as PNG - or two stems).  Each call is the machine of FileOps; the steps of the two interleave in
   every order.  The design claim is independence: whatever the other call does and whenever, a call ends exactly as it would
   have alone (FileAllOrError per writer, and fs[w] = F_Run(fault[w], off[w])).  A shared temporary file, a shared buffer or
   a lock held across both would break it.  Every pair of behaviours is exported and replayed on two real threads released by a
   barrier (write-time faults through /dev/full only: RLIMIT_FSIZE is per process and would strike both writers). *)
EXTENDS FileRun, TLC, Json
Writers == {1, 2}
VARIABLES fs, fault, off, pre, rel, sched
vars == <<fs, fault, off, pre, rel, sched>>
Classes2 == Classes \ {"EFBIG"}
Init == /\ fs = [w \in Writers |-> F_Init]
        /\ fault \in [Writers -> Classes2]
        /\ off = [w \in Writers |-> 0]
        /\ pre \in [Writers -> {"absent", "shorter", "longer"}]
        /\ \A w \in Writers : fault[w] # "none" => pre[w] = "absent"
        /\ rel \in {"samestem", "otherstem"}
        /\ sched = <<>>
Step(w) == /\ fs[w].phase # "done"
           /\ fs' = [fs EXCEPT ![w] = F_Step(fs[w], fault[w], off[w])]
           /\ sched' = Append(sched, w)
           /\ UNCHANGED <<fault, off, pre, rel>>
Next == \E w \in Writers : Step(w)
Spec == Init /\ [][Next]_vars
Done == \A w \in Writers : fs[w].phase = "done"
Independent == \A w \in Writers : fs[w].phase = "done" =>
                 /\ fs[w] = F_Run(fault[w], off[w])
                 /\ (fs[w].ret = "Ok" => fs[w].written = L)
                 /\ (Struck(fault[w], off[w]) <=> fs[w].ret = "Err")
\* exported once per pair: on the schedule that runs writer 1 to completion and then writer 2
Export == (Done /\ \E k \in 0..Len(sched) : /\ \A i \in 1..k : sched[i] = 1
                                           /\ \A i \in (k+1)..Len(sched) : sched[i] = 2) =>
            PrintT(<<"REPLAY", ToJson([f1 |-> fault[1], f2 |-> fault[2], p1 |-> pre[1], p2 |-> pre[2], rel |-> rel,
                                       r1 |-> fs[1].ret, r2 |-> fs[2].ret, c1 |-> FileClass(fs[1]), c2 |-> FileClass(fs[2])])>>)
=============================================================================
