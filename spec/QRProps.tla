-------------------------------- MODULE QRProps --------------------------------
(***************************************************************************)
(* The listed properties as predicates over one completed build.           *)
(*                                                                         *)
(*   b   = [input, ecl, mode, version, mask]   the option registers the    *)
(*         build started from ("none" / -1 = unset)                        *)
(*   o   = [n, M, T, ecl, mask, version, mode, tail_clean]  the returned   *)
(*         QR code: side, values (1..n*n -> 0/1), type labels              *)
(*         (1..n*n -> 0..7) and the reported fields                        *)
(*   lay = Layout(VersionOfSize(o.n));  d = Decode(o.n, o.M, lay, ...)     *)
(*                                                                         *)
(* MC_Pipeline evaluates them on the model's own results, Trace.tla on     *)
(* results observed from the implementation: one source of truth.          *)
(***************************************************************************)
EXTENDS QRDecode

\* qr.rs:211 QRBuilder::new: every option unset
NewRegs(x) == [input |-> x, ecl |-> "none", mode |-> -1, version |-> -1, mask |-> -1]
WantMode(b) == IF b.mode >= 0 THEN b.mode ELSE BestMode(b.input)
WantLevel(b) == IF b.ecl = "none" THEN "Q" ELSE b.ecl
InDomain(b) == ModeOK(b.input, WantMode(b))        \* outside: forced mode cannot carry the input, no claim (BuildUnspecified)

(* C03 *)
SizeExact(o, lay) == o.n = Size(lay.v)
NothingOutsideSquare(o) == o.tail_clean
FunctionPatternsExact(o, lay) ==
  LET n == o.n IN \A i \in 1..n*n : lay.reg[i] \in {1,2,3,6,7} =>
       (o.M[i] = 1) = FnDark(lay.v, n, lay.band, lay.reg[i], (i-1) \div n, (i-1) % n)
(* C15: ISO assigns the modules where an alignment pattern lies on a timing line to both patterns *)
LabelsExact(o, lay) ==
  LET n == o.n IN \A i \in 1..n*n : o.T[i] = lay.reg[i] \/ (lay.reg[i] = 2 /\ o.T[i] = 3 /\ ((i-1) \div n = 6 \/ (i-1) % n = 6))
DataLabelCount(o, lay) == Cardinality({ i \in 1..o.n*o.n : o.T[i] = 0 }) = 8 * TotalCW(lay.v) + RemainderBits(lay.v)
(* C04 *)
FormatCopiesExact(d) == d.fmtOK
VersionInfoExact(d, lay) == lay.v < 7 \/ (d.v1 = BCH18(lay.v) /\ d.v2 = BCH18(lay.v))
ReportedFieldsTruth(o, d, lay) == o.ecl = d.fe /\ o.mask = d.fm /\ o.version = lay.v
ReportedModeTruth(o, d, lay) == LET p == ParseSegment(d.data, lay.v) IN p.mode = o.mode
ForcedOptionsHonoured(b, d, lay) ==
  /\ WantLevel(b) = d.fe
  /\ (b.mask < 0 \/ b.mask = d.fm)
  /\ (b.version < 1 \/ b.version = lay.v)
(* C02 *)
RemainderBitsZero(d) == \A k \in (8*d.ncw+1)..Len(d.bits) : d.bits[k] = 0
CodewordCount(d, lay) == d.ncw = TotalCW(lay.v) /\ Len(d.bits) = 8*TotalCW(lay.v) + RemainderBits(lay.v)
BlockShape(d, lay) == d.nb = NbOf(lay.v, d.fe) /\ \A bk \in 1..d.nb : Len(d.blocks[bk]) = BlockLens(lay.v, d.fe)[bk] + EcOf(lay.v, d.fe)
SyndromesZero(d) == \A bk \in 1..d.nb : \A k \in 0..d.ec-1 : Syndrome(d.blocks[bk], k) = 0
(* C07 *)
ECIsRemainder(d) == \A bk \in 1..d.nb : LET dl == Len(d.blocks[bk]) - d.ec IN
                      RSRemainder(SubSeq(d.blocks[bk], 1, dl), d.ec) = SubSeq(d.blocks[bk], dl+1, dl+d.ec)
(* C01 *)
RoundTrip(b, o, d, lay) ==
  LET p == ParseSegment(d.data, lay.v) IN
  /\ p.ok /\ ModeOK(p.bytes, p.mode)
  /\ Len(p.bytes) = Len(b.input) /\ \A k \in 1..Len(b.input) : p.bytes[k] = b.input[k]
(* C09 *)
AutoModeCompact(b, o) == o.mode = WantMode(b)
(* C05 *)
MinimalVersion(b, o, d, lay) ==
  LET minv == MinVersion(WantMode(b), d.fe, Len(b.input))
      wantv == IF b.version >= 1 THEN b.version ELSE minv
  IN minv >= 1 /\ wantv >= minv /\ lay.v = wantv /\ Fits(WantMode(b), d.fe, lay.v, Len(b.input))
\* the documented error outcome for registers b, or "Ok"
ExpectedOutcome(b) ==
  LET minv == MinVersion(WantMode(b), WantLevel(b), Len(b.input)) IN
  IF minv = 0 THEN "EncodedData"
  ELSE IF b.version >= 1 /\ b.version < minv THEN "SpecifiedVersion"
  ELSE "Ok"
(* C06 *)
\* judged in the mode the stream itself announces (so a wrong mode choice is C09's finding, not C06's), provided that
\* mode can carry the input; otherwise in the mode in effect
StreamMode(d) == LET mi == d.data[1] \div 16 IN CASE mi = 1 -> 0 [] mi = 2 -> 1 [] mi = 4 -> 2 [] OTHER -> -1
DataCodewordsISO(b, o, d, lay) ==
  LET sm == StreamMode(d)
      mode == IF sm >= 0 /\ ModeOK(b.input, sm) THEN sm ELSE WantMode(b)
  IN /\ Len(d.data) = DataCW(lay.v, d.fe)
     /\ \A i \in 1..8*Len(d.data) : Bit(d.data[((i-1) \div 8) + 1], 7 - ((i-1) % 8)) = DataBit(b.input, mode, lay.v, d.fe, i)
=============================================================================
