-------------------------------- MODULE FileRun --------------------------------
(* The complete to_file call as one operator (iterates F_Step); kept apart from FileOps so that FileOps stays within the
   fragment Apalache accepts (no RECURSIVE). *)
EXTENDS FileOps
\* the complete call (at most L + 3 steps)
F_Run(fault, off) == LET RECURSIVE go(_, _)
                         go(fs, n) == IF fs.phase = "done" \/ n = 0 THEN fs ELSE go(F_Step(fs, fault, off), n - 1)
                     IN go(F_Init, L + 4)
=============================================================================
