------------------------------ MODULE MC_Pipeline ------------------------------
(* Exhaustive exploration of the build pipeline at small constants: every option combination over a handful of
   inputs, one builder, one thread; the registers are chosen in Init (MaxSets = 0), so the state space is
   (number of register combinations) x (pipeline depth). *)
EXTENDS FastQR
Digits(n) == [i \in 1..n |-> 48 + (i % 10)]
MC_Builders == {1}
MC_Threads == {1}
\* "", "7", "K", "k", "7K", 17 digits (numeric tail of 2), 41 digits (V1-L numeric capacity), 42 digits (first V2 length)
\* <<52,50>> = "42": 21 header+payload bits, so the 4-bit terminator crosses a byte boundary (a 3-bit one would not)
MC_InputsQuick == { <<>>, <<55>>, <<75>>, <<107>>, <<55,75>>, <<52,50>>, Digits(41) }
MC_InputsCov == { <<55,75>>, Digits(41) }
MC_LevelsCov == {"H"}
MC_VersionsCov == {-1, 1}
MC_MasksCov == {-1}
MC_ModesCov == {-1}
MC_InputsThorough == MC_InputsQuick \cup { Digits(17), Digits(42), <<75, 55, 32, 36>>, <<0, 255, 236, 17>>, [i \in 1..17 |-> 107], [i \in 1..25 |-> 65 + (i % 26)] }
MC_LevelsQuick == {"none", "L", "H"}
MC_LevelsAll == {"none", "L", "M", "Q", "H"}
MC_ModesQuick == {-1, 2}
MC_ModesAll == {-1, 0, 1, 2}
MC_VersionsQuick == {-1, 2}
MC_VersionsThorough == {-1, 1, 2, 7}
MC_MasksQuick == {-1, 3}
MC_MasksAll == -1..7
================================================================================
