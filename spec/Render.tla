-------------------------------- MODULE Render --------------------------------
(***************************************************************************)
(* The renderers as read-only actions on a built QR code.                  *)
(*                                                                         *)
(*  - SvgBuilder / ImageBuilder register machine (convert/svg.rs:88-150,   *)
(*    convert/image.rs:84-160): shape / shape_color APPEND a layer, every  *)
(*    other setter overwrites its register (last value wins);              *)
(*  - RenderText (helpers.rs:33-60), RenderSvg (svg.rs:262-343),           *)
(*    RenderRaster (image.rs:163-196) leave the QR code unchanged and      *)
(*    produce an observation that is a function of (matrix, registers).    *)
(*                                                                         *)
(* Concrete syntax (XML, path data, float printing, pixels) is projected   *)
(* by sensors in the harness to integers: lengths in 1/1000 module,        *)
(* strings as code-point sequences, sub-paths as the cell of their         *)
(* bounding-box centre, pixels as palette indices at cell centres.         *)
(* The predicates below decide on that projection.                         *)
(***************************************************************************)
EXTENDS QRBase

(* ---------------- registers ---------------- *)
HexCp(d) == IF d < 10 THEN 48 + d ELSE 87 + d                         \* lower-case hex digit as a code point
HexByte(b) == <<HexCp(b \div 16), HexCp(b % 16)>>
LowerCp(c) == IF c >= 65 /\ c <= 90 THEN c + 32 ELSE c
\* RGBA arrays print as #rrggbb, or #rrggbbaa when alpha < 255 (3-element arrays are opaque)
ColorCps(c) == LET a == IF Len(c) = 3 THEN 255 ELSE c[4] IN
               <<35>> \o HexByte(c[1]) \o HexByte(c[2]) \o HexByte(c[3]) \o (IF a < 255 THEN HexByte(a) ELSE <<>>)
\* colour strings are passed through; the sensor lower-cases values that start with '#', and so does the model
NormCps(s) == IF Len(s) >= 1 /\ s[1] = 35 THEN [i \in 1..Len(s) |-> LowerCp(s[i])] ELSE s
Rgba(c) == IF Len(c) = 3 THEN <<c[1], c[2], c[3], 255>> ELSE c

RegInit == [layers |-> <<>>, margin |-> 4,
            dot |-> [txt |-> ColorCps(<<0,0,0,255>>), rgba |-> <<0,0,0,255>>],
            bg |-> [txt |-> ColorCps(<<255,255,255,255>>), rgba |-> <<255,255,255,255>>],
            hasImage |-> FALSE, image |-> <<>>,
            imgBg |-> [txt |-> ColorCps(<<255,255,255,255>>), rgba |-> <<255,255,255,255>>], imgShape |-> 0,
            size |-> -1, gap |-> -1, pos |-> <<>>, fitW |-> -1, fitH |-> -1]
RgbaCol(c) == [txt |-> ColorCps(c), rgba |-> Rgba(c)]
ColStr(s) == [txt |-> NormCps(s), rgba |-> <<>>]          \* not interpretable as a pixel colour
NoCol == [txt |-> <<>>, rgba |-> <<>>]

\* one setter call (svg.rs:88-150 / image.rs:84-160)
Apply(reg, call) ==
  CASE call.op = "shape" -> [reg EXCEPT !.layers = Append(@, [shape |-> call.a, color |-> NoCol])]
    [] call.op = "shape_color" -> [reg EXCEPT !.layers = Append(@, [shape |-> call.a, color |-> RgbaCol(call.c)])]
    [] call.op = "margin" -> [reg EXCEPT !.margin = call.a]
    [] call.op = "module_color" -> [reg EXCEPT !.dot = RgbaCol(call.c)]
    [] call.op = "background_color" -> [reg EXCEPT !.bg = RgbaCol(call.c)]
    [] call.op = "module_color_str" -> [reg EXCEPT !.dot = ColStr(call.s)]
    [] call.op = "background_color_str" -> [reg EXCEPT !.bg = ColStr(call.s)]
    [] call.op = "image" -> [reg EXCEPT !.hasImage = TRUE, !.image = call.s]
    [] call.op = "image_background_color" -> [reg EXCEPT !.imgBg = RgbaCol(call.c)]
    [] call.op = "image_background_shape" -> [reg EXCEPT !.imgShape = call.a]
    [] call.op = "image_size" -> [reg EXCEPT !.size = call.a]
    [] call.op = "image_gap" -> [reg EXCEPT !.gap = call.a]
    [] call.op = "image_position" -> [reg EXCEPT !.pos = <<call.a, call.b>>]
    [] call.op = "fit_width" -> [reg EXCEPT !.fitW = call.a]
    [] call.op = "fit_height" -> [reg EXCEPT !.fitH = call.a]
RegsAfter(program) == FoldLeft(Apply, RegInit, program)
\* the layers actually drawn: the configured ones, or the default square in the module colour
LayersOf(reg) == IF Len(reg.layers) = 0 THEN <<[shape |-> 0, color |-> NoCol]>> ELSE reg.layers
LayerColor(reg, ly) == IF ly.color.txt = <<>> THEN reg.dot ELSE ly.color

DarkAt(vals, r, c) == Bit(vals[r+1][(c \div 24)+1], c % 24) = 1      \* 0-based module coordinates, packed rows

(* ---------------- C16: terminal text.  1 = dark (unlit), 0 = light (lit) ---------------- *)
TextAlphabet == {32, 9600, 9604, 9608}                                \* space, upper half, lower half, full block
Top(ch)    == CASE ch = 32 -> 1 [] ch = 9608 -> 0 [] ch = 9600 -> 0 [] ch = 9604 -> 1
Bottom(ch) == CASE ch = 32 -> 1 [] ch = 9608 -> 0 [] ch = 9600 -> 1 [] ch = 9604 -> 0
\* picture row p (0 = top border, 1..n = module rows, n+1 = bottom border) lives in line (p+1) div 2, bottom half iff p even
Pix(lines, p, x) == LET ch == lines[((p+1) \div 2) + 1][x+1] IN IF p % 2 = 0 THEN Bottom(ch) ELSE Top(ch)
TextShape(n, lines) == /\ Len(lines) = ((n+1) \div 2) + 1
                       /\ \A i \in DOMAIN lines : Len(lines[i]) = n + 2 /\ \A j \in DOMAIN lines[i] : lines[i][j] \in TextAlphabet
TextBorder(n, lines) == /\ \A x \in 0..n+1 : Pix(lines, 0, x) = 0 /\ Pix(lines, n+1, x) = 0
                        /\ \A p \in 1..n : Pix(lines, p, 0) = 0 /\ Pix(lines, p, n+1) = 0
TextModules(n, vals, lines) == \A r \in 0..n-1 : \A c \in 0..n-1 : (Pix(lines, r+1, c+1) = 1) = DarkAt(vals, r, c)
\* the renderer of the model: what RenderText produces for a matrix (used by MC_Render: decode o render = id)
TextOf(n, dark(_, _)) ==
  LET px(p, x) == IF p = 0 \/ p = n+1 \/ x = 0 \/ x = n+1 THEN 0 ELSE IF dark(p-1, x-1) THEN 1 ELSE 0
      ch(t, b) == IF t = 1 /\ b = 1 THEN 32 ELSE IF t = 1 THEN 9604 ELSE IF b = 1 THEN 9600 ELSE 9608
  IN [k \in 1..((n+1) \div 2) + 1 |-> [x \in 1..n+2 |-> ch(IF k = 1 THEN 1 ELSE px(2*k-3, x-1), px(2*k-2, x-1))]]

(* ---------------- C12: SVG document ---------------- *)
Drawn(kinds) == SelectSeq(kinds, LAMBDA k : k \in {"rect", "path", "image"})
SvgStructure(reg, n, o) ==
  LET s == (n + 2*reg.margin) * 1000 d == Drawn(o.kinds) IN
  /\ o.root = "svg" /\ o.viewbox = <<0, 0, s, s>>
  /\ Len(o.rects) >= 1 /\ Len(d) >= 1 /\ d[1] = "rect"                                   \* the background is drawn first
  /\ o.rects[1].x = 0 /\ o.rects[1].y = 0 /\ o.rects[1].w = s /\ o.rects[1].h = s
SvgBackground(reg, o) == Len(o.rects) >= 1 /\ o.rects[1].fill = reg.bg.txt
SvgLayerCount(reg, o) == Len(o.layers) = Len(LayersOf(reg))
WantCells(n, m, vals) == { <<p[2] + m, p[1] + m>> : p \in { q \in (0..n-1) \X (0..n-1) : DarkAt(vals, q[1], q[2]) } }
SvgCells(reg, n, vals, o) ==
  LET want == WantCells(n, reg.margin, vals) IN
  \A i \in DOMAIN o.layers : LET cells == o.layers[i].cells IN
     /\ o.layers[i].parsed = 1 /\ o.layers[i].strays = 0
     /\ Len(cells) = Cardinality(want)                                                      \* with the next line: each exactly once
     /\ { cells[k] : k \in DOMAIN cells } = want
SvgLayerColors(reg, o) == \A i \in DOMAIN o.layers : i <= Len(LayersOf(reg)) => o.layers[i].fill = LayerColor(reg, LayersOf(reg)[i]).txt
\* XML attribute-value normalisation: a literal TAB, LF or CR inside an attribute is read back as a space by every
\* conforming parser; the property's domain (URLs, data URIs, paths, XML-special characters) does not ask for more
\* (line ends are normalised first: the CR of a CR LF pair disappears, then TAB / LF / CR each read back as one space)
AttrNormalize(s) == FoldLeft(LAMBDA acc, i : IF s[i] = 13 /\ i < Len(s) /\ s[i+1] = 10 THEN acc
                                               ELSE Append(acc, IF s[i] \in {9, 10, 13} THEN 32 ELSE s[i]), <<>>, Range1(Len(s)))
SvgImage(reg, o) == IF reg.hasImage THEN Len(o.images) = 1 /\ o.images[1].href = AttrNormalize(reg.image) ELSE Len(o.images) = 0

(* ---------------- C18: frame geometry, milli-modules ---------------- *)
Near(a, b, tol) == AbsI(a - b) <= tol
HasFrame(reg, o) == reg.hasImage /\ o.wellformed = 1 /\ Len(o.rects) = 2 /\ Len(o.images) = 1
IsDefaultPlacement(reg) == reg.size < 0 /\ reg.gap < 0 /\ reg.pos = <<>>
\* default placement: square, centred, on module boundaries, below 40% of the symbol side, clear of the three finder boxes,
\* image centred in the frame and not larger
FrameDefault(n, m, f, im) ==
  LET s == (n + 2*m) * 1000 IN
  /\ f.w = f.h /\ f.x = f.y /\ 2*f.x + f.w = s
  /\ f.x % 1000 = 0 /\ f.w % 1000 = 0 /\ f.w > 0
  /\ 10 * f.w < 4 * n * 1000
  /\ f.x - m*1000 >= 8000 /\ f.x + f.w <= (m + n - 8) * 1000
FrameImageCentred(f, im, tol) == im.w = im.h /\ Near(2*im.x + im.w, 2*f.x + f.w, tol) /\ Near(2*im.y + im.h, 2*f.y + f.h, tol)
\* explicit options: requested size (two-decimal print: +-5 milli), frame = image + 2 gap or one module less,
\* frame centred on the requested position (or on the symbol), image centred in the frame
FrameOverrides(reg, n, f, im) ==
  LET s == (n + 2*reg.margin) * 1000 IN
  /\ f.w = f.h /\ im.w = im.h
  /\ (reg.size >= 0 => Near(im.w, reg.size, 6))
  /\ (reg.gap >= 0 => \/ Near(f.w - im.w, 2*reg.gap, 7) \/ Near(f.w - im.w, 2*reg.gap - 1000, 7))
  /\ (reg.pos # <<>> => Near(2*f.x + f.w, 2*reg.pos[1], 3) /\ Near(2*f.y + f.h, 2*reg.pos[2], 3))
  /\ (reg.pos = <<>> => Near(2*f.x + f.w, s, 3) /\ Near(2*f.y + f.h, s, 3))
  /\ FrameImageCentred(f, im, 17)      \* x, y and width are printed with two decimals: 2*5 + 5 milli, plus rounding of the frame values

(* ---------------- C13: raster ---------------- *)
ExpectedSide(reg, n) == LET cells == n + 2*reg.margin IN
  IF reg.fitW < 0 /\ reg.fitH < 0 THEN cells
  ELSE IF reg.fitH < 0 THEN reg.fitW ELSE IF reg.fitW < 0 THEN reg.fitH ELSE Min2(reg.fitW, reg.fitH)
Premul(c) == [k \in 1..4 |-> IF k = 4 THEN c[4] ELSE (c[k] * c[4] + 127) \div 255]
ColNear(p, q) == \A k \in 1..4 : AbsI(p[k] - q[k]) <= 1
CentreIdx(o, cx, cy) == (o.centre[cy+1][(cx \div 6)+1] \div (16^(cx % 6))) % 16
UniformAt(o, cx, cy) == Bit(o.uniform[cy+1][(cx \div 24)+1], cx % 24) = 1
TopColor(reg) == LET ls == LayersOf(reg) IN LayerColor(reg, ls[Len(ls)])
AllSquare(reg) == \A i \in DOMAIN LayersOf(reg) : LayersOf(reg)[i].shape = 0
\* the claimed domain: opaque module colour given as an array, background given as an array
RasterColorsJudgeable(reg) == TopColor(reg).rgba # <<>> /\ TopColor(reg).rgba[4] = 255 /\ reg.bg.rgba # <<>>
RasterSide(reg, n, o) == o.w = ExpectedSide(reg, n) /\ o.h = o.w
RasterCentres(reg, n, vals, o) ==
  LET m == reg.margin cells == n + 2*m
      fg == Premul(TopColor(reg).rgba) bg == Premul(reg.bg.rgba)
      inside(cx, cy) == cx >= m /\ cx < m + n /\ cy >= m /\ cy < m + n
      \* very large margins: the sensor reports a window of cells around the symbol (first cell `win`, n + 8 cells wide) cell by
      \* cell and, for the cells it probed outside it, only the palette entries found there (all of them must be the background)
      w0 == IF "win" \in DOMAIN o THEN o.win ELSE 0
      wn == IF "win" \in DOMAIN o THEN n + 8 ELSE cells
      cidx(cx, cy) == (o.centre[cy - w0 + 1][((cx - w0) \div 6) + 1] \div (16^((cx - w0) % 6))) % 16
  IN /\ o.cells = cells /\ Len(o.centre) = wn
     /\ ("win" \in DOMAIN o => o.win = m - 4 /\ \A i \in DOMAIN o.outer : o.outer[i] < Len(o.palette) /\ ColNear(o.palette[o.outer[i] + 1], bg))
     /\ \A cy \in w0..(w0 + wn - 1) : \A cx \in w0..(w0 + wn - 1) :
          LET idx == cidx(cx, cy) IN
          /\ idx < Len(o.palette)
          /\ ColNear(o.palette[idx+1], IF inside(cx, cy) /\ DarkAt(vals, cy - m, cx - m) THEN fg ELSE bg)
\* C18 in the raster renderer (ImageBuilder forwards the embedded-image options to the document it rasterises): with explicit size, gap and
\* position the frame is the square of side size + 2*gap centred on the position.  Every cell whose centre lies within the inscribed circle
\* of that square shrunk by `inner` (below) shows the frame colour (true for the three frame shapes alike); every cell whose centre lies more
\* than one module outside the square shows what the symbol shows there.  The ring in between is not judged (alignment adjustment, rounded
\* corners).  The referenced file does not exist, so nothing is drawn over the frame.  Milli-modules; requires no window and an image.
RasterFrame(reg, n, vals, o) ==
  LET m == reg.margin cells == n + 2*m
      half == (reg.size + 2*reg.gap) \div 2
      fr == Premul(reg.imgBg.rgba) fg == Premul(TopColor(reg).rgba) bg == Premul(reg.bg.rgba)
      inside(cx, cy) == cx >= m /\ cx < m + n /\ cy >= m /\ cy < m + n
      dx(cx) == AbsI(cx*1000 + 500 - reg.pos[1])
      dy(cy) == AbsI(cy*1000 + 500 - reg.pos[2])
      \* radius inside which a sampled pixel lies wholly in the frame whatever its shape: one module of safety, half a module of
      \* alignment adjustment (the property allows it), and the half-diagonal of the sampled pixel (0.71 module at one pixel per module)
      inner == half - 1500 - (710 \div o.scale_int) - 1
  IN /\ o.cells = cells /\ Len(o.centre) = cells
     /\ \A cy \in 0..cells-1 : \A cx \in 0..cells-1 :
          LET idx == CentreIdx(o, cx, cy) IN        \* (cells of the unjudged ring may hold blended colours beyond the palette of the sensor)
          /\ ((inner > 0 /\ dx(cx) < half /\ dy(cy) < half /\ dx(cx)*dx(cx) + dy(cy)*dy(cy) <= inner*inner) =>
                 idx < Len(o.palette) /\ ColNear(o.palette[idx+1], fr))
          /\ ((dx(cx) > half + 1000 \/ dy(cy) > half + 1000) =>
                 idx < Len(o.palette) /\ ColNear(o.palette[idx+1], IF inside(cx, cy) /\ DarkAt(vals, cy - m, cx - m) THEN fg ELSE bg))
RasterUniform(reg, n, o) == LET cells == n + 2*reg.margin
                                w0 == IF "win" \in DOMAIN o THEN o.win ELSE 0
                                wn == IF "win" \in DOMAIN o THEN n + 8 ELSE cells IN
  Len(o.uniform) = wn /\ \A cy \in 0..wn-1 : \A cx \in 0..wn-1 : UniformAt(o, cx, cy)
RasterPng(o) == o.png = 1 /\ o.png_w = o.w /\ o.png_h = o.h /\ o.png_equal = 1
=============================================================================
