-------------------------------- MODULE FileOps --------------------------------
(***************************************************************************)
(* to_file as a small machine (convert/svg.rs:332-342, image.rs:182-189    *)
(* via tiny-skia save_png): render in memory, create/truncate the file,    *)
(* write the bytes, return.  The environment injects one fault: a class    *)
(* that strikes at create time, or a write-time class that strikes when    *)
(* `off` chunks have been written.  The rendering is abstracted to L = 4   *)
(* chunks, enough to tell every prefix class apart: nothing, first byte,   *)
(* middle, all but the last byte, everything.                              *)
(* Pure step operators, so that FileIO.tla (the machine TLC explores) and  *)
(* Trace.tla (which judges recorded executions) share one definition.      *)
(***************************************************************************)
EXTENDS Integers, Sequences
CONSTANT
  \* @type: Int;
  L          \* number of chunks of the rendering (4 in every TLC configuration; arbitrary in the Apalache proof FileInd.tla)
CreateFaults == {"ENOENT", "EISDIR", "ENOTDIR", "EROFS", "ENAMETOOLONG", "ELOOP"}
WriteFaults == {"ENOSPC", "EFBIG"}
Classes == {"none"} \cup CreateFaults \cup WriteFaults
\* @type: { phase: Str, written: Int, ret: Str };
F_Init == [phase |-> "start", written |-> -1, ret |-> "none"]
\* File::create: fails for a create-time class and leaves no (new) file, otherwise creates the file or TRUNCATES the one
\* that is there (written = 0 whatever was at the path before: nothing of an earlier, longer file may survive)
\* @type: ({ phase: Str, written: Int, ret: Str }, Str) => { phase: Str, written: Int, ret: Str };
F_Create(fs, fault) == IF fault \in CreateFaults THEN [fs EXCEPT !.phase = "create_failed"]
                       ELSE [fs EXCEPT !.phase = "writing", !.written = 0]
\* write_all, one chunk: a write-time fault strikes exactly when `off` chunks are on disk
\* @type: ({ phase: Str, written: Int, ret: Str }, Str, Int) => { phase: Str, written: Int, ret: Str };
F_Write(fs, fault, off) == IF fault \in WriteFaults /\ fs.written = off THEN [fs EXCEPT !.phase = "write_failed"]
                           ELSE [fs EXCEPT !.written = fs.written + 1]
\* @type: ({ phase: Str, written: Int, ret: Str }) => { phase: Str, written: Int, ret: Str };
F_ReturnOk(fs) == [fs EXCEPT !.phase = "done", !.ret = "Ok"]
\* @type: ({ phase: Str, written: Int, ret: Str }) => { phase: Str, written: Int, ret: Str };
F_ReturnErr(fs) == [fs EXCEPT !.phase = "done", !.ret = "Err"]
\* @type: ({ phase: Str, written: Int, ret: Str }, Str, Int) => { phase: Str, written: Int, ret: Str };
F_Step(fs, fault, off) ==
  CASE fs.phase = "start" -> F_Create(fs, fault)
    [] fs.phase = "writing" /\ fs.written < L -> F_Write(fs, fault, off)
    [] fs.phase = "writing" /\ fs.written = L -> F_ReturnOk(fs)
    [] fs.phase \in {"create_failed", "write_failed"} -> F_ReturnErr(fs)
    [] OTHER -> fs
Struck(fault, off) == fault \in CreateFaults \/ (fault \in WriteFaults /\ off < L)
\* abstraction of a byte limit on a rendering of `len` bytes to a chunk offset
AbsOff(limit, len) == IF limit >= len THEN L ELSE IF limit = 0 THEN 0 ELSE IF limit = 1 THEN 1 ELSE IF limit < len - 1 THEN 2 ELSE 3
\* @type: ({ phase: Str, written: Int, ret: Str }) => Str;
FileClass(fs) == IF fs.written = -1 THEN "absent" ELSE IF fs.written = L THEN "equal" ELSE "prefix"
=============================================================================
