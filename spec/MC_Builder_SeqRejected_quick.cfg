SPECIFICATION Spec
CONSTANTS
  Builders <- MC_One
  Threads <- MC_One
  Opts <- Opts_ModeVersion
  MaxLen = 6
CHECK_DEADLOCK FALSE
INVARIANT Deterministic
INVARIANT SnapshotIsRegisters
INVARIANT Replay
PROPERTY BuildReadOnly
