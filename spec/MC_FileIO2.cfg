SPECIFICATION Spec
CONSTANT L = 4
CHECK_DEADLOCK FALSE
INVARIANT Independent
INVARIANT Export
