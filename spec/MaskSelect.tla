---------------------------- MODULE MaskSelect ----------------------------
(***************************************************************************)
(* The eight-candidate selection loop of placement.rs:99-112 in isolation: *)
(* a running minimum over masks 0..7 in order, then a forced mask          *)
(* overrides.  Scores are arbitrary naturals.  Checked two ways:           *)
(*   - TLC, exhaustively over all score vectors in a small range           *)
(*     (MC_MaskSelect.cfg overrides ScoreRange);                           *)
(*   - Apalache, as an inductive invariant for unbounded scores:           *)
(*       Init => IndInv            (--init=Init    --inv=IndInv --length=0)*)
(*       IndInv /\ Next => IndInv' (--init=IndInit --inv=IndInv --length=1)*)
(*       IndInv => Minimal         (--init=IndInit --inv=Minimal --length=0)*)
(* What this cannot say is whether the scores the code ranks by are the    *)
(* documented penalties of the candidates: that is trace validation's job  *)
(* (Candidates events).                                                    *)
(***************************************************************************)
EXTENDS Integers
VARIABLES
  \* @type: Int -> Int;
  score,
  \* @type: Int;
  forced,
  \* @type: Int;
  i,
  \* @type: Int;
  best,
  \* @type: Int;
  bestScore,
  \* @type: Int;
  chosen
vars == <<score, forced, i, best, bestScore, chosen>>
Masks == 0..7
ScoreRange == Nat
Init == /\ score \in [Masks -> ScoreRange] /\ forced \in -1..7
        /\ i = 0 /\ best = 0 /\ bestScore = -1 /\ chosen = -1
\* ScoreCandidate(i): strict improvement only, so the first of several minima is kept
Step == /\ i <= 7
        /\ IF bestScore < 0 \/ score[i] < bestScore
           THEN best' = i /\ bestScore' = score[i]
           ELSE UNCHANGED <<best, bestScore>>
        /\ i' = i + 1 /\ UNCHANGED <<score, forced, chosen>>
\* ChooseMask
Choose == /\ i = 8 /\ chosen = -1
          /\ chosen' = (IF forced >= 0 THEN forced ELSE best)
          /\ UNCHANGED <<score, forced, i, best, bestScore>>
Done == i = 8 /\ chosen >= 0 /\ UNCHANGED vars
Next == Step \/ Choose \/ Done
Spec == Init /\ [][Next]_vars
IndInv == /\ i \in 0..8 /\ best \in Masks /\ chosen \in -1..7 /\ forced \in -1..7
          /\ \A m \in Masks : score[m] >= 0
          /\ (i = 0 => bestScore = -1)
          /\ (i > 0 => best < i /\ bestScore = score[best] /\ \A m \in Masks : m < i => score[m] >= bestScore)
          /\ (chosen >= 0 => i = 8 /\ chosen = (IF forced >= 0 THEN forced ELSE best))
IndInit == /\ score \in [Masks -> Int] /\ forced \in -1..7
           /\ i \in 0..8 /\ best \in 0..7 /\ bestScore \in Int /\ chosen \in -1..7
           /\ IndInv
Minimal == chosen >= 0 => IF forced >= 0 THEN chosen = forced ELSE \A m \in Masks : score[chosen] <= score[m]
\* every mask is looked at exactly once: the loop counter only ever advances by one
AllVisited == [][i' = i \/ i' = i + 1]_vars
=============================================================================
