-------------------------------- MODULE Builder --------------------------------
(***************************************************************************)
(* Builders, setters and builds across threads, with the build abstracted  *)
(* to "a function of the register snapshot" (FastQR.tla refines BuildEnd   *)
(* into the staged pipeline).  qr.rs:211-252: a setter overwrites one      *)
(* register (&mut self, so it cannot overlap a build of the same builder), *)
(* build(&self) reads the registers once and leaves them unchanged, and no *)
(* thread reads another thread's job.                                      *)
(* TLC explores every interleaving up to MaxLen steps, checks Deterministic*)
(* and BuildReadOnly, and exports every complete history (GEN); each is    *)
(* replayed on real QRBuilders with real threads, and the recorded events  *)
(* are judged by Trace.tla against the registers the model holds.          *)
(***************************************************************************)
EXTENDS Integers, Sequences, FiniteSets, TLC, Json
CONSTANTS Builders, Threads, Opts, MaxLen
Vals == 1..2                       \* abstract option values; 0 = unset (the replay maps them to concrete values)
VARIABLES regs, pc, hist, done
vars == <<regs, pc, hist, done>>
Unset == [o \in Opts |-> 0]
Init == /\ regs = [b \in Builders |-> Unset]
        /\ pc = [t \in Threads |-> [st |-> "idle"]]
        /\ hist = <<>> /\ done = {}
Busy(b) == \E t \in Threads : pc[t].st = "building" /\ pc[t].b = b
First == CHOOSE x \in Threads : \A y \in Threads : x <= y
\* setters are not attributed to threads (they need exclusive access anyway)
Set(b, o, v) == /\ ~Busy(b) /\ Len(hist) < MaxLen
                /\ regs' = [regs EXCEPT ![b][o] = v]
                /\ hist' = Append(hist, [op |-> "set", t |-> First, b |-> b, o |-> o, v |-> v])
                /\ UNCHANGED <<pc, done>>
BuildStart(t, b) == /\ pc[t].st = "idle" /\ Len(hist) < MaxLen
                    /\ pc' = [pc EXCEPT ![t] = [st |-> "building", b |-> b, snap |-> regs[b]]]
                    /\ hist' = Append(hist, [op |-> "build_start", t |-> t, b |-> b, o |-> "", v |-> 0])
                    /\ UNCHANGED <<regs, done>>
\* the result is a function of the snapshot only
BuildEnd(t) == /\ pc[t].st = "building"
               /\ done' = done \cup {[b |-> pc[t].b, snap |-> pc[t].snap, result |-> pc[t].snap]}
               /\ pc' = [pc EXCEPT ![t] = [st |-> "idle"]]
               /\ hist' = Append(hist, [op |-> "build_end", t |-> t, b |-> pc[t].b, o |-> "", v |-> 0])
               /\ UNCHANGED regs
Next == \/ \E b \in Builders, o \in Opts, v \in Vals : Set(b, o, v)
        \/ \E t \in Threads, b \in Builders : BuildStart(t, b)
        \/ \E t \in Threads : BuildEnd(t)
Spec == Init /\ [][Next]_vars
Deterministic == \A x, y \in done : (x.b = y.b /\ x.snap = y.snap) => x.result = y.result
SnapshotIsRegisters == \A t \in Threads : pc[t].st = "building" => pc[t].snap = regs[pc[t].b]      \* no setter can slip under a build
BuildReadOnly == [][\A t \in Threads : (pc[t].st = "building" /\ pc'[t].st = "idle") => UNCHANGED regs]_vars
Complete == Len(hist) = MaxLen /\ \A t \in Threads : pc[t].st = "idle"
Replay == (Complete /\ done # {}) => PrintT(<<"REPLAY", ToJson([hist |-> hist])>>)
=================================================================================
