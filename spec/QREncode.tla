------------------------------- MODULE QREncode -------------------------------
(***************************************************************************)
(* ISO/IEC 18004 7.4: character classes, automatic mode, capacity and      *)
(* version choice, and the single-segment bit stream in closed form        *)
(* (DataBit gives the i-th bit directly, so a V40 stream costs O(bits)).   *)
(* Inputs are sequences of byte values.  Modes: 0 numeric, 1 alnum, 2 byte *)
(***************************************************************************)
EXTENDS QRTables

IsDigit(b) == b >= 48 /\ b <= 57
AlnumValue(b) == IF b >= 48 /\ b <= 57 THEN b - 48
                 ELSE IF b >= 65 /\ b <= 90 THEN b - 55
                 ELSE CASE b = 32 -> 36 [] b = 36 -> 37 [] b = 37 -> 38 [] b = 42 -> 39 [] b = 43 -> 40
                        [] b = 45 -> 41 [] b = 46 -> 42 [] b = 47 -> 43 [] b = 58 -> 44 [] OTHER -> -1
IsAlnum(b) == AlnumValue(b) >= 0
BestMode(input) == IF \A i \in DOMAIN input : IsDigit(input[i]) THEN 0
                   ELSE IF \A i \in DOMAIN input : IsAlnum(input[i]) THEN 1 ELSE 2
\* a forced mode can carry the input iff every byte is in its alphabet
ModeOK(input, mode) == CASE mode = 0 -> \A i \in DOMAIN input : IsDigit(input[i])
                         [] mode = 1 -> \A i \in DOMAIN input : IsAlnum(input[i])
                         [] mode = 2 -> TRUE

SegBits(mode, n) == CASE mode = 0 -> 10*(n \div 3) + (CASE n % 3 = 0 -> 0 [] n % 3 = 1 -> 4 [] n % 3 = 2 -> 7)
                      [] mode = 1 -> 11*(n \div 2) + 6*(n % 2)
                      [] mode = 2 -> 8*n
Fits(mode, e, v, n) == 4 + Cci(mode, v) + SegBits(mode, n) <= 8 * DataCW(v, e) /\ n < 2^Cci(mode, v)
\* least fitting version, 0 when none (FoldLeft from 40 down to 1 keeps the smallest)
MinVersion(mode, e, n) == FoldLeft(LAMBDA acc, k : IF Fits(mode, e, 41 - k, n) THEN 41 - k ELSE acc, 0, Range1(40))

DataBit(input, mode, v, e, i) ==
  LET n == Len(input)
      hdr == 4 + Cci(mode, v)
      L0 == hdr + SegBits(mode, n)
      cap == 8 * DataCW(v, e)
      L1 == L0 + (IF cap - L0 < 4 THEN cap - L0 ELSE 4)
      L2 == ((L1 + 7) \div 8) * 8
      j == i - hdr
  IN IF i <= 4 THEN Bit(ModeInd(mode), 4 - i)
     ELSE IF i <= hdr THEN Bit(n, hdr - i)
     ELSE IF i <= L0 THEN
        CASE mode = 2 -> Bit(input[((j-1) \div 8) + 1], 7 - ((j-1) % 8))
          [] mode = 0 -> LET g == n \div 3 IN
                IF j <= 10*g THEN LET q == (j-1) \div 10 IN
                     Bit(100*(input[3*q+1]-48) + 10*(input[3*q+2]-48) + (input[3*q+3]-48), 9 - ((j-1) % 10))
                ELSE IF n % 3 = 1 THEN Bit(input[3*g+1]-48, 3 - (j - 10*g - 1))
                ELSE Bit(10*(input[3*g+1]-48) + (input[3*g+2]-48), 6 - (j - 10*g - 1))
          [] mode = 1 -> LET p == n \div 2 IN
                IF j <= 11*p THEN LET q == (j-1) \div 11 IN
                     Bit(45*AlnumValue(input[2*q+1]) + AlnumValue(input[2*q+2]), 10 - ((j-1) % 11))
                ELSE Bit(AlnumValue(input[n]), 5 - (j - 11*p - 1))
     ELSE IF i <= L2 THEN 0
     ELSE LET k == (i - L2 - 1) \div 8 IN Bit(IF k % 2 = 0 THEN 236 ELSE 17, 7 - ((i - L2 - 1) % 8))

DataCodewordsOf(input, mode, v, e) ==
  TLCEval([k \in 1..DataCW(v, e) |-> FoldLeft(LAMBDA acc, b : 2*acc + DataBit(input, mode, v, e, 8*(k-1) + b), 0, Range1(8))])

EncodeLemmas ==
  /\ { AlnumValue(b) : b \in { x \in 0..255 : IsAlnum(x) } } = 0..44 /\ Cardinality({ x \in 0..255 : IsAlnum(x) }) = 45
  /\ \A b \in 0..255 : IsDigit(b) => IsAlnum(b)
  \* Fits is monotone in the version for every (mode, level) at the capacity thresholds (run-length events rely on it)
  /\ \A mode \in 0..2 : \A e \in {"L","M","Q","H"} : \A v \in 1..39 :
        \A n \in {0, 1, 17, 100, 1000, 3000, 7089} : Fits(mode, e, v, n) => Fits(mode, e, v+1, n)
  \* anchors typed from ISO 18004 Table 7 (character capacities), independent of the derivation above: the capacity
  \* that the bit-length formula and the data-codeword table give is exactly the published one
  /\ \A t \in { <<1,"L",41,25,17>>, <<1,"M",34,20,14>>, <<1,"Q",27,16,11>>, <<1,"H",17,10,7>>,
                <<40,"L",7089,4296,2953>>, <<40,"M",5596,3391,2331>>, <<40,"Q",3993,2420,1663>>, <<40,"H",3057,1852,1273>> } :
        \A mode \in 0..2 : Fits(mode, t[2], t[1], t[3 + mode]) /\ ~Fits(mode, t[2], t[1], t[3 + mode] + 1)
=============================================================================
