SPECIFICATION Spec
CHECK_DEADLOCK FALSE
INVARIANT FileAllOrError
INVARIANT Replay
