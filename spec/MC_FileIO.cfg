SPECIFICATION Spec
CONSTANT L = 4
CHECK_DEADLOCK FALSE
INVARIANT FileAllOrError
INVARIANT Replay
