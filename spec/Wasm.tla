---------------------------------- MODULE Wasm ----------------------------------
(* The SvgOptions machine explored by TLC over an abstract setter alphabet: every program up to MaxLen is exported
   (GEN) with the registers the model predicts, and replayed on the host-compiled wasm.rs. *)
EXTENDS WasmOps, TLC, Json
CONSTANTS Alphabet,      \* sequence of abstract calls (records as in the events)
          MaxLen
VARIABLES w, hist
vars == <<w, hist>>
Init == w = W_Init /\ hist = <<>> /\ PrintT(<<"ALPHABET", ToJson(Alphabet)>>)
Set(i) == /\ Len(hist) < MaxLen
          /\ w' = W_Apply(w, Alphabet[i])
          /\ hist' = Append(hist, i)
Next == \E i \in DOMAIN Alphabet : Set(i)
Spec == Init /\ [][Next]_vars
\* design-level: a register is havoc exactly when the last value given to it was malformed; nothing else is ever lost
HavocExact == \A f \in {"module", "bg", "imgBg", "pos"} :
                (f \in w.havoc) <=> \E k \in DOMAIN hist :
                    /\ LET c == Alphabet[hist[k]] IN
                         \/ (c.op = "module_color" /\ f = "module" /\ ~WellFormedColor(c.s))
                         \/ (c.op = "background_color" /\ f = "bg" /\ ~WellFormedColor(c.s))
                         \/ (c.op = "image_background_color" /\ f = "imgBg" /\ ~WellFormedColor(c.s))
                         \/ (c.op = "image_position" /\ f = "pos" /\ Len(c.f) # 2)
                    /\ \A j \in (k+1)..Len(hist) : LET d == Alphabet[hist[j]] IN
                         ~(d.op = Alphabet[hist[k]].op)
TypeOK == /\ Len(w.module) = 4 /\ Len(w.bg) = 4 /\ Len(w.imgBg) = 4 /\ w.havoc \subseteq {"module", "bg", "imgBg", "pos"}
          /\ Len(w.size) \in {0, 2} /\ Len(w.pos) \in {0, 2}
Replay == PrintT(<<"REPLAY", ToJson([prog |-> hist, havoc |-> w.havoc])>>)
=================================================================================
