--------------------------------- MODULE Trace ---------------------------------
(***************************************************************************)
(* Trace specification: consumes ndjson events recorded from the real      *)
(* crate (IOEnv.TRACE) and requires every event to be a step of the        *)
(* specification.  One step operator per event kind (StepOf), each built    *)
(* from the operators of the machines: S_* (FastQR), F_* (FileOps),       *)
(* W_Apply / NativeOf (WasmOps), Apply / RegsAfter (Render).               *)
(*                                                                         *)
(* A trace action is always enabled: when the logged values are not what   *)
(* the specification allows it prints a DIAG line naming the property,     *)
(* bumps TLC register 1 and resynchronises on the logged state, so every   *)
(* event of a shard is judged (-workers 1).  All heavy work sits on the    *)
(* right-hand side of an equality (TLC evaluates LETs lazily and uncached  *)
(* in action position).                                                    *)
(***************************************************************************)
EXTENDS QRProps, WasmOps, FileRun, Json, IOUtils

Rec == ndJsonDeserialize(IOEnv.TRACE)

VARIABLES l,      \* next line of the trace
          lay,    \* Layout of the version last seen (computed once per run of equal versions)
          st      \* trace state: grp = current group / history; U = unmasked symbol of the same-payload group (C08);
                  \* pens = candidate penalties of the group (C11 fallback); regs = registers of the builders of the
                  \* current history, memo = (registers -> result) of every build so far, rmemo = render hashes (C14)
vars == <<l, lay, st>>

Diag(k, rec, prop, why) == PrintT(<<"DIAG", ToJson([line |-> k, id |-> rec.id, tag |-> rec.tag, property |-> prop, why |-> why])>>) /\ TLCSet(1, TLCGet(1) + 1)
Require(cond, k, rec, prop, why) == IF cond THEN TRUE ELSE Diag(k, rec, prop, why)

(* ---------------- unpacking ---------------- *)
\* module values travel 24 per integer, labels 8 per integer (3 bits each), row by row
UnpackVals(n, vals) == TLCEval([i \in 1..n*n |-> LET r == (i-1) \div n c == (i-1) % n IN Bit(vals[r+1][(c \div 24)+1], c % 24)])
UnpackTypes(n, types) == TLCEval([i \in 1..n*n |-> LET r == (i-1) \div n c == (i-1) % n IN (types[r+1][(c \div 8)+1] \div (8^(c % 8))) % 8])
\* very long constant-content inputs travel as <<byte, length>>
InputOf(rec) == IF "rep" \in DOMAIN rec THEN [i \in 1..rec.rep[2] |-> rec.rep[1]] ELSE rec.input
RegsOf(rec) == [input |-> InputOf(rec), ecl |-> rec.opts.ecl, mode |-> rec.opts.mode, version |-> rec.opts.version, mask |-> rec.opts.mask]

(* ---------------- Build: BuildStart .. Return composed ---------------- *)
EvSize(rec) == IF rec.ev \in {"Build", "Corrupt", "HBuild"} THEN (IF rec.out.kind = "Ok" /\ rec.lite = 0 THEN rec.out.size ELSE 0)
               ELSE IF rec.ev \in {"Blank", "MaskOp", "Candidates"} THEN rec.size
               ELSE 0
NextLay(cur, rec) == LET v == VersionOfSize(EvSize(rec)) IN
                     IF v = 0 THEN cur ELSE IF cur.v = v THEN cur ELSE Layout(v)

BuildOk(k, rec, b, ly, s) ==
  LET out == rec.out
      n == out.size
      o == [n |-> n, M |-> UnpackVals(n, out.vals), T |-> UnpackTypes(n, out.types),
            ecl |-> out.ecl, mask |-> out.mask, version |-> out.version, mode |-> out.mode, tail_clean |-> out.tail_clean]
      d == Decode(n, o.M, ly, out.ecl, IF out.mask >= 0 THEN out.mask ELSE 0)
      U == UnmaskedOf(n, o.M, ly, d.fm)
      checks ==
        /\ Require(NothingOutsideSquare(o), k, rec, "C03", "module outside the size x size square modified")
        /\ Require(FunctionPatternsExact(o, ly), k, rec, "C03", "function pattern value")
        /\ Require(LabelsExact(o, ly), k, rec, "C15", "type label differs from ISO region")
        /\ Require(DataLabelCount(o, ly), k, rec, "C15", "number of data labels")
        /\ Require(FormatCopiesExact(d), k, rec, "C04", "format information copies")
        /\ Require(VersionInfoExact(d, ly), k, rec, "C04", "version information")
        /\ Require(ReportedFieldsTruth(o, d, ly), k, rec, "C04", "reported level/mask/version differ from the symbol")
        /\ Require(ReportedModeTruth(o, d, ly), k, rec, "C04", "reported mode differs from the mode indicator")
        /\ Require(ForcedOptionsHonoured(b, d, ly), k, rec, "C04", "forced option or default level not honoured")
        /\ Require(CodewordCount(d, ly), k, rec, "C02", "codeword count")
        /\ Require(RemainderBitsZero(d), k, rec, "C02", "remainder bits")
        /\ Require(BlockShape(d, ly), k, rec, "C02", "block layout")
        /\ Require(SyndromesZero(d), k, rec, "C02", "syndromes")
        /\ Require(ECIsRemainder(d), k, rec, "C07", "EC codewords are not the remainder")
        /\ Require(RoundTrip(b, o, d, ly), k, rec, "C01", "round trip")
        /\ ("rows_agree" \in DOMAIN out => Require(out.rows_agree, k, rec, "C01", "the row accessor qr[r] does not return row r of the symbol"))
        /\ Require(AutoModeCompact(b, o), k, rec, "C09", "mode")
        /\ Require(MinimalVersion(b, o, d, ly), k, rec, "C05", "version")
        /\ Require(DataCodewordsISO(b, o, d, ly), k, rec, "C06", "data bits")
        /\ Require(rec.grp = 0 \/ s.grp # rec.grp \/ s.U = U, k, rec, "C08", "unmasked symbol differs from the same payload under another mask")
      \* C11 through the public API (used when the in-loop recorder is not available): the eight forced-mask builds of a group are
      \* the candidates; their penalty is taken with the format strip light (as the selection loop sees them) and as emitted; the
      \* automatic build of the group must be minimal under at least one of the two readings (conservative on purpose)
      wantPen == "pen" \in DOMAIN rec /\ rec.grp # 0
      dat == DataIndicator(ly)
      penA == IF wantPen THEN Penalty(TLCEval([i \in 1..n*n |-> IF ly.reg[i] = 4 THEN 0 ELSE o.M[i]]), dat, n) ELSE 0
      penB == IF wantPen THEN Penalty(o.M, dat, n) ELSE 0
      prevPens == IF s.grp = rec.grp THEN s.pens ELSE <<>>
      minOf(k2) == MinOfSeq([j \in 1..Len(prevPens) |-> prevPens[j][k2]])
      autoOK == ~wantPen \/ b.mask >= 0 \/ Len(prevPens) # 8 \/ penA = minOf(2) \/ penB = minOf(3)
                \/ (\E j \in 1..8 : prevPens[j][1] = d.fm /\ (prevPens[j][2] = minOf(2) \/ prevPens[j][3] = minOf(3)))
  IN IF checks /\ Require(autoOK, k, rec, "C11", "chosen mask does not minimise the documented penalty over the eight forced-mask builds of the same payload")
     THEN [s EXCEPT !.grp = rec.grp, !.U = IF rec.grp = 0 THEN <<>> ELSE IF s.grp = rec.grp THEN s.U ELSE U,
                    !.pens = IF wantPen /\ b.mask >= 0 THEN Append(prevPens, <<d.fm, penA, penB>>) ELSE prevPens]
     ELSE s

\* outcome and reported fields only (no matrix in the event): used for the bulk of C05/C10 lengths
BuildLite(k, rec, b, s) ==
  LET out == rec.out
      mode == WantMode(b) e == WantLevel(b)
      minv == MinVersion(mode, e, Len(b.input))
      wantv == IF b.version >= 1 THEN b.version ELSE minv
      checks ==
        /\ Require(ExpectedOutcome(b) = "Ok", k, rec, "C05", "symbol returned where an error is documented")
        /\ Require(out.version = wantv /\ out.size = Size(wantv), k, rec, "C05", "version")
        /\ Require(out.ecl = e /\ out.mask \in 0..7 /\ (b.mask < 0 \/ out.mask = b.mask), k, rec, "C04", "forced option or default level not honoured")
        /\ Require(out.mode = mode, k, rec, "C09", "mode")
        /\ Require(out.tail_clean, k, rec, "C03", "module outside the size x size square modified")
        /\ ("rows_agree" \in DOMAIN out => Require(out.rows_agree, k, rec, "C01", "the row accessor qr[r] does not return row r of the symbol"))
  IN IF checks THEN s ELSE s

BuildStep(k, rec, b, ly, s) ==
  IF ~InDomain(b) THEN s                                        \* BuildUnspecified: no claim
  ELSE IF rec.out.kind = "Ok" /\ rec.lite = 1 THEN BuildLite(k, rec, b, s)
  ELSE IF rec.out.kind = "Ok" THEN
     IF VersionOfSize(rec.out.size) = 0 \/ ly.v # VersionOfSize(rec.out.size)
     THEN (IF Require(FALSE, k, rec, "C03", "side is not 17+4v") THEN s ELSE s)
     ELSE IF ExpectedOutcome(b) # "Ok"
     THEN (IF Require(FALSE, k, rec, "C05", "symbol returned where an error is documented") THEN BuildOk(k, rec, b, ly, s) ELSE s)
     ELSE BuildOk(k, rec, b, ly, s)
  ELSE IF rec.out.kind = "Err" THEN
     (IF Require(ExpectedOutcome(b) = rec.out.why, k, rec, "C05", "error outcome") THEN s ELSE s)
  ELSE (IF /\ Require(FALSE, k, rec, "C10", rec.out.kind) /\ Require(FALSE, k, rec, "C05", "no Ok / documented error outcome: " \o rec.out.kind)
           \* automatic mode crashed although the same input builds (or fails as documented) with the most compact mode forced: the mode choice rejected the input
           /\ Require(~("forced_kinds" \in DOMAIN rec /\ b.mode < 0 /\ rec.forced_kinds[BestMode(b.input) + 1] \in {"Ok", "EncodedData", "SpecifiedVersion"}),
                       k, rec, "C09", "automatic mode choice rejects the input: the build crashes but succeeds with the most compact mode forced")
        THEN s ELSE s)     \* Panic / Timeout match no action (C10: building is total; C05: no length ever produces a panic)

(* ---------------- Corrupt: environment action on a built symbol, then Recover (C02 corollary) ---------------- *)
CorruptStep(k, rec, ly, s) ==
  IF rec.out.kind # "Ok" \/ VersionOfSize(rec.out.size) = 0 \/ ly.v # VersionOfSize(rec.out.size)
  THEN (IF Require(FALSE, k, rec, "C02", "no symbol to corrupt: " \o rec.out.kind) THEN s ELSE s)
  ELSE
  LET n == rec.out.size
      M == UnpackVals(n, rec.out.vals)
      d == Decode(n, M, ly, rec.out.ecl, IF rec.out.mask >= 0 THEN rec.out.mask ELSE 0)
      es == rec.errors
      shapeOK == d.nb = NbOf(ly.v, d.fe) /\ \A bk \in 1..d.nb : Len(d.blocks[bk]) = BlockLens(ly.v, d.fe)[bk] + d.ec
      errsOf(bk) == SelectSeq(es, LAMBDA x : x[1] = bk)
      wellFormed == /\ \A i \in DOMAIN es : es[i][1] \in 1..d.nb /\ es[i][2] \in 1..Len(d.blocks[es[i][1]]) /\ es[i][3] \in 1..255
                    /\ \A i, j \in DOMAIN es : i # j => <<es[i][1], es[i][2]>> # <<es[j][1], es[j][2]>>
                    /\ \A bk \in 1..d.nb : Len(errsOf(bk)) <= d.ec \div 2
      corrupted(bk) == LET eb == errsOf(bk) IN
                       TLCEval([i \in 1..Len(d.blocks[bk]) |-> FoldLeft(LAMBDA acc, x : IF x[2] = i THEN acc ^^ x[3] ELSE acc, d.blocks[bk][i], eb)])
      checks ==
        /\ Require(d.fmtOK, k, rec, "C04", "format information copies")
        /\ Require(shapeOK, k, rec, "C02", "block layout")
        /\ (shapeOK =>
              /\ Require(wellFormed, k, rec, "TOOL", "driver produced an error pattern outside the claimed domain")
              /\ (wellFormed =>
                    /\ Require(SyndromesZero(d), k, rec, "C02", "syndromes")
                    /\ Require(\A bk \in 1..d.nb : BMDecode(corrupted(bk), d.ec) = d.blocks[bk], k, rec, "C02", "corrupted block not recovered by Berlekamp-Massey decoding")))
  IN IF checks THEN s ELSE s

(* ---------------- component events (hook re-exports): one pipeline stage each ---------------- *)
OkKind(k, rec, prop) == Require(rec.kind = "Ok", k, rec, prop, "stage did not return: " \o rec.kind)

\* SelectVersion on a maximal run of lengths with the same answer: both ends suffice, MinVersion is monotone in the length
VGetStep(k, rec) ==
  /\ OkKind(k, rec, "C05")
  /\ (rec.kind = "Ok" => Require(MinVersion(rec.mode, rec.ecl, rec.from) = rec.v /\ MinVersion(rec.mode, rec.ecl, rec.to) = rec.v, k, rec, "C05", "version lookup differs from the smallest sufficient version"))
\* EncodeSegment .. PadCodewords
EncodeStep(k, rec) ==
  /\ OkKind(k, rec, "C06")
  /\ (rec.kind = "Ok" =>
        /\ Require(Len(rec.out) = DataCW(rec.version, rec.ecl), k, rec, "C06", "number of data codewords")
        /\ Require(Len(rec.out) # DataCW(rec.version, rec.ecl) \/ rec.out = DataCodewordsOf(rec.input, rec.mode, rec.version, rec.ecl), k, rec, "C06", "data bits"))
\* generator accessor
PolyStep(k, rec) ==
  LET d == EcOf(rec.version, rec.ecl) g == GenPoly(d) c == rec.coeffs IN
  /\ Require(Len(c) = d + 1, k, rec, "C07", "generator degree differs from ISO Table 9")
  /\ Require(Len(c) # d + 1 \/ \A j \in 1..d+1 : g[j] # 0 /\ c[j] = GFLog[g[j]], k, rec, "C07", "generator coefficients")
\* ComputeEC on the single-non-zero-byte basis: R(b, 0) directly, R(b, k+1) = x * R(b, k) mod g from the recorded R(b, k)
DivisionStep(k, rec) ==
  LET d == rec.deg rs == rec.rems IN
  /\ OkKind(k, rec, "C07")
  /\ (rec.kind = "Ok" =>
        /\ Require(Len(rs) = 123 /\ \A i \in 1..Len(rs) : Len(rs[i]) = d, k, rec, "C07", "remainder length")
        /\ ((Len(rs) = 123 /\ \A i \in 1..Len(rs) : Len(rs[i]) = d) =>
              /\ Require(rs[1] = RSRemainder(<<rec.byte>>, d), k, rec, "C07", "EC codewords are not the remainder")
              /\ Require(\A i \in 1..122 : rs[i+1] = RSShift(rs[i], d), k, rec, "C07", "EC codewords are not the remainder (shifted basis block)")))
DivBlockStep(k, rec) ==
  /\ OkKind(k, rec, "C07")
  /\ (rec.kind = "Ok" => Require(rec.out = RSRemainder(rec.data, rec.deg), k, rec, "C07", "EC codewords are not the remainder"))
\* the crate's hard-coded tables against the derived ones
TablesStep(k, rec) ==
  LET v == rec.version e == rec.ecl t == rec.t
      lens == BlockLens(v, e)
      groupsOK == /\ t[4] + t[6] = NbOf(v, e)
                  /\ \A bk \in 1..NbOf(v, e) : lens[bk] = IF bk <= t[4] THEN t[5] ELSE t[7]
  IN /\ Require(t[1] = TotalCW(v) /\ t[2] = RemainderBits(v), k, rec, "C02", "codeword count")
     /\ Require(t[3] = DataCW(v, e), k, rec, "C06", "number of data codewords")
     /\ Require(t[4] + t[6] # NbOf(v, e) \/ groupsOK, k, rec, "C02", "block layout")
     /\ Require(t[4] + t[6] = NbOf(v, e), k, rec, "C02", "block layout")
     /\ Require(t[8] = Size(v), k, rec, "C03", "side is not 17+4v")
     /\ Require(rec.cci = <<Cci(0, v), Cci(1, v), Cci(2, v)>>, k, rec, "C06", "character count width")
     /\ Require({ rec.align[i] : i \in DOMAIN rec.align } = AlignPos(v), k, rec, "C03", "alignment centres")
     /\ Require(rec.format = [m \in 1..8 |-> FormatWord(e, m - 1)], k, rec, "C04", "format information copies")
     /\ Require(v < 7 \/ rec.vinfo = BCH18(v), k, rec, "C04", "version information")
\* DrawBlank
BlankStep(k, rec, ly) ==
  IF VersionOfSize(rec.size) # rec.version \/ ly.v # rec.version THEN Require(FALSE, k, rec, "C03", "side is not 17+4v")
  ELSE LET n == rec.size
           o == [n |-> n, M |-> UnpackVals(n, rec.vals), T |-> UnpackTypes(n, rec.types), tail_clean |-> rec.tail_clean]
           At(p) == o.M[p[1]*n + p[2] + 1]
           v1 == FoldLeft(LAMBDA acc, b : acc + At(VersionPos1(n, b)) * 2^b, 0, Range0(18))
           v2 == FoldLeft(LAMBDA acc, b : acc + At(VersionPos2(n, b)) * 2^b, 0, Range0(18))
       IN /\ Require(NothingOutsideSquare(o), k, rec, "C03", "module outside the size x size square modified")
          /\ Require(FunctionPatternsExact(o, ly), k, rec, "C03", "function pattern value")
          /\ Require(LabelsExact(o, ly), k, rec, "C15", "type label differs from ISO region")
          /\ Require(DataLabelCount(o, ly), k, rec, "C15", "number of data labels")
          /\ Require(ly.v < 7 \/ (v1 = BCH18(ly.v) /\ v2 = BCH18(ly.v)), k, rec, "C04", "version information")
\* ApplyMask alone: exactly the Table 10 condition on the encoding region, nothing else moves
MaskOpStep(k, rec, ly) ==
  IF rec.kind # "Ok" THEN OkKind(k, rec, "C08")
  ELSE IF VersionOfSize(rec.size) # rec.version \/ ly.v # rec.version THEN Require(FALSE, k, rec, "C03", "side is not 17+4v")
  ELSE LET n == rec.size
           B == UnpackVals(n, rec.before)
           A == UnpackVals(n, rec.after)
       IN /\ Require(A = MaskedOf(ly, B, rec.mask), k, rec, "C08", "mask sweep differs from the ISO condition on the encoding region")
          /\ Require(rec.types_after = rec.types, k, rec, "C15", "type label changed by masking")
          /\ Require(rec.tail_clean, k, rec, "C03", "module outside the size x size square modified")
BestModeStep(k, rec) == Require(rec.out = BestMode(rec.input), k, rec, "C09", "mode")
\* the bit container as its own little machine (not a listed property: reported under G01)
CompactStep(k, rec) ==
  LET bitsOf(it) == [j \in 1..it[2] |-> Bit(it[1], it[2] - j)]
      bits == FoldLeft(LAMBDA acc, it : acc \o bitsOf(it), <<>>, rec.items)
      nb == (Len(bits) + 7) \div 8
      byteOf(q) == FoldLeft(LAMBDA acc, j : 2*acc + (IF 8*(q-1) + j <= Len(bits) THEN bits[8*(q-1) + j] ELSE 0), 0, Range1(8))
  IN /\ OkKind(k, rec, "G01")
     /\ (rec.kind = "Ok" =>
           /\ Require(rec.len = Len(bits), k, rec, "G01", "bit container length")
           /\ Require(Len(rec.data) >= nb /\ \A q \in 1..Len(rec.data) : rec.data[q] = IF q <= nb THEN byteOf(q) ELSE 0, k, rec, "G01", "bit container content"))

(* ---------------- Candidates: ScoreCandidate x 8 and ChooseMask as the selection loop saw them (C11) ---------------- *)
CandStep(k, rec, ly) ==
  IF ~InDomain(RegsOf(rec)) THEN TRUE                               \* forced mode cannot carry the input: no claim (BuildUnspecified)
  ELSE IF rec.kind # "Ok" THEN (IF rec.kind \in {"EncodedData", "SpecifiedVersion"} THEN TRUE ELSE Require(FALSE, k, rec, "C10", rec.kind))
  ELSE IF VersionOfSize(rec.size) = 0 \/ ly.v # VersionOfSize(rec.size) THEN Require(FALSE, k, rec, "C03", "side is not 17+4v")
  ELSE IF rec.opts.mask >= 0 THEN Require(rec.chosen = rec.opts.mask, k, rec, "C11", "forced mask does not override the selection")
  ELSE
  LET n == rec.size
      nc == Len(rec.cand)
      dat == DataIndicator(ly)
      vals == TLCEval([m \in 1..nc |-> UnpackVals(n, rec.cand[m].vals)])
      shape == nc = 8 /\ { rec.cand[m].mask : m \in 1..nc } = 0..7 /\ rec.chosen \in 0..7
      unm == MaskedOf(ly, vals[1], rec.cand[1].mask)
      same == \A m \in 1..nc : MaskedOf(ly, vals[m], rec.cand[m].mask) = unm
      pen == TLCEval([m \in 1..nc |-> Penalty(vals[m], dat, n)])
      used == [m \in 1..nc |-> rec.cand[m].score]
      idx == CHOOSE m \in 1..nc : rec.cand[m].mask = rec.chosen
  IN /\ Require(shape, k, rec, "C11", "not all eight masks tried exactly once")
     /\ (shape =>
           /\ Require(same, k, rec, "C11", "candidates are not masks of the same placed codewords")
           /\ PrintT(<<"NOTE", ToJson([id |-> rec.id, documented |-> pen, used |-> used, chosen |-> rec.chosen, agree |-> (used = pen)])>>)
           \* growth (not a listed property: any order-equivalent score would satisfy C11): the score the crate ranks by IS the documented penalty
           /\ Require(used = pen, k, rec, "G02", "score used for ranking differs from the documented penalty of that candidate")
           /\ Require(pen[idx] = MinOfSeq(pen), k, rec, "C11", "chosen mask does not minimise the documented penalty"))

(* ---------------- renderers: read-only actions on a built QR code ---------------- *)
TextStep(k, rec) ==
  IF rec.kind # "Ok" THEN OkKind(k, rec, "C16")
  ELSE LET n == rec.size shape == TextShape(n, rec.lines) IN
       /\ Require(shape, k, rec, "C16", "line count, line width or alphabet")
       /\ (shape =>
             /\ Require(TextBorder(n, rec.lines), k, rec, "C16", "border is not one light module on all four sides")
             /\ Require(TextModules(n, rec.vals, rec.lines), k, rec, "C16", "module not reproduced in place"))
       \* QRCode::print: what reaches standard output is the text rendering followed by one line terminator
       /\ ("printed" \in DOMAIN rec =>
             Require(rec.printed = rec.lines \o << <<>> >>, k, rec, "C16", "print() writes something other than the text rendering and a newline"))
       \* the same with standard output bound to a terminal (a pseudo-terminal in raw mode): what the user sees is that rendering, nothing else
       /\ ("printed_tty" \in DOMAIN rec =>
             Require(rec.printed_tty = rec.lines \o << <<>> >>, k, rec, "C16", "print() to a terminal writes something other than the text rendering and a newline"))

FrameChecks(k, rec, reg, o, n, prop) ==
  IF ~reg.hasImage THEN TRUE
  ELSE IF ~HasFrame(reg, o) THEN Require(FALSE, k, rec, prop, "frame rectangle or image element missing")
  ELSE LET f == o.rects[2] im == o.images[1] IN
       IF IsDefaultPlacement(reg)
       THEN /\ Require(FrameDefault(n, reg.margin, f, im), k, rec, prop, "default frame is not a centred module-aligned square below 40% and clear of the finders")
            /\ Require(FrameImageCentred(f, im, 12) /\ im.w <= f.w, k, rec, prop, "image not centred in the frame or larger than it")
       ELSE Require(FrameOverrides(reg, n, f, im), k, rec, prop, "explicit size / gap / position not honoured")

SvgStep(k, rec, full) ==
  IF rec.kind # "Ok" THEN OkKind(k, rec, "C12")
  ELSE LET reg == RegsAfter(rec.program) o == rec.obs n == rec.size IN
       /\ Require(rec.qr_unchanged = 1, k, rec, "C14", "rendering modified the QR code")
       \* a builder object that has already rendered: same final registers as a fresh builder, so the same document
       /\ Require("fresh_eq" \notin DOMAIN rec \/ rec.fresh_eq = 1, k, rec, "C14", "a rendering depends on earlier renderings or on the order of setter calls and renderings of its builder, not on the final options alone")
       /\ Require(o.wellformed = 1, k, rec, "C12", "document is not well-formed XML")
       /\ (o.wellformed = 1 =>
             /\ Require(SvgStructure(reg, n, o), k, rec, "C12", "root element, viewBox or background rectangle geometry")
             /\ Require(SvgBackground(reg, o), k, rec, "C12", "background colour")
             /\ Require(SvgImage(reg, o), k, rec, "C12", "image element count or href")
             /\ (full =>
                   /\ Require(SvgLayerCount(reg, o), k, rec, "C12", "number of shape layers")
                   /\ Require(SvgCells(reg, n, rec.vals, o), k, rec, "C12", "sub-paths are not exactly the dark modules")
                   /\ Require(SvgLayerColors(reg, o), k, rec, "C12", "layer colour"))
             /\ FrameChecks(k, rec, reg, o, n, "C18"))

\* default frame over all 40 versions for one (frame shape, margin): every row judged, plus monotonicity in the version
FrameSweepStep(k, rec) ==
  IF rec.kind # "Ok" THEN OkKind(k, rec, "C18")
  ELSE LET rows == rec.rows
           rowOK(i) == /\ rows[i].wellformed = 1 /\ Len(rows[i].rects) = 2 /\ Len(rows[i].images) = 1 /\ rows[i].v = i
           shape == Len(rows) = 40 /\ \A i \in 1..40 : rowOK(i)
       IN /\ Require(shape, k, rec, "C18", "frame rectangle or image element missing")
          /\ (shape =>
                /\ Require(\A i \in 1..40 : FrameDefault(rows[i].size, rec.margin, rows[i].rects[2], rows[i].images[1]), k, rec, "C18", "default frame is not a centred module-aligned square below 40% and clear of the finders")
                /\ Require(\A i \in 1..40 : FrameImageCentred(rows[i].rects[2], rows[i].images[1], 12) /\ rows[i].images[1].w <= rows[i].rects[2].w, k, rec, "C18", "image not centred in the frame or larger than it")
                /\ Require(\A i \in 1..39 : rows[i+1].rects[2].w >= rows[i].rects[2].w, k, rec, "C18", "frame side shrinks as the version grows"))

RasterStep(k, rec) ==
  IF rec.kind # "Ok" THEN OkKind(k, rec, "C13")
  ELSE LET reg == RegsAfter(rec.program) o == rec.obs n == rec.size
           cells == n + 2*reg.margin
           side == RasterSide(reg, n, o)
       IN /\ Require(rec.qr_unchanged = 1, k, rec, "C14", "rendering modified the QR code")
          /\ Require(side, k, rec, "C13", "pixmap is not the expected square")
          \* growth (G06, not a listed property): with an embedded image configured the frame is drawn over the symbol; the cell at
          \* the frame centre (requested position, or the symbol centre) shows the frame colour -- ImageBuilder forwards those options
          /\ ((side /\ reg.hasImage /\ o.cells = cells /\ Len(o.centre) = cells) =>
                LET cx == IF reg.pos # <<>> THEN reg.pos[1] \div 1000 ELSE cells \div 2
                    cy == IF reg.pos # <<>> THEN reg.pos[2] \div 1000 ELSE cells \div 2
                    idx == CentreIdx(o, cx, cy)
                IN Require(idx < Len(o.palette) /\ ColNear(o.palette[idx + 1], Premul(reg.imgBg.rgba)), k, rec, "G06", "frame colour not found at the frame centre (embedded-image options not forwarded to the rasterised document)"))
          \* C18 through the raster builder: explicit size, gap and position decide where the frame is
          /\ ((side /\ reg.hasImage /\ reg.pos # <<>> /\ reg.size >= 0 /\ reg.gap >= 0 /\ "win" \notin DOMAIN o /\ RasterColorsJudgeable(reg)
                   /\ reg.imgBg.rgba # <<>> /\ AllSquare(reg) /\ o.scale_int >= 1) =>
                Require(RasterFrame(reg, n, rec.vals, o), k, rec, "C18", "raster: the frame is not where the explicit size, gap and position put it"))
          /\ ((side /\ ~reg.hasImage) =>
                /\ ((RasterColorsJudgeable(reg) /\ (o.w >= 4*cells \/ (AllSquare(reg) /\ o.scale_int >= 1))) =>
                       Require(RasterCentres(reg, n, rec.vals, o), k, rec, "C13", "centre pixel of a cell is not the module / background colour"))
                /\ ((AllSquare(reg) /\ o.scale_int >= 1) =>
                       Require(RasterUniform(reg, n, o), k, rec, "C13", "square module cell is not uniform at integer scale")))
          /\ Require(RasterPng(o), k, rec, "C13", "PNG bytes do not decode to the pixmap")

(* ---------------- FileOp: one complete to_file call under an injected fault (C19) ---------------- *)
FileStep(k, rec) ==
  LET off == IF rec.fault = "EFBIG" THEN AbsOff(rec.limit, rec.len) ELSE 0
      fin == F_Run(rec.fault, off)
  IN /\ Require(rec.ret \in {"Ok", "Err"}, k, rec, "C19", "to_file did not return a value: " \o rec.ret)
     /\ Require(rec.ret \notin {"Ok", "Err"} \/ rec.ret = fin.ret, k, rec, "C19",
                 IF fin.ret = "Err" THEN "Ok returned although the file could not be created or fully written" ELSE "error returned although nothing prevented the write")
     /\ Require(rec.ret # "Ok" \/ rec.fault = "ENOSPC" \/ rec.file = "equal", k, rec, "C19", "Ok returned but the file does not hold the in-memory rendering")

(* ---------------- WASM facade on the host: setter program, then one export (C17) ---------------- *)
\* the native builder registers the harness used ("the same settings") are the ones the model maps the options onto,
\* except where a malformed value leaves the register unspecified
SameSettings(w, nr) == LET mr == NativeOf(w) IN
  /\ nr.layers = mr.layers /\ nr.margin = mr.margin /\ nr.hasImage = mr.hasImage /\ nr.image = mr.image /\ nr.imgShape = mr.imgShape
  /\ nr.size = mr.size /\ nr.gap = mr.gap
  /\ ("bg" \in w.havoc \/ nr.bg = mr.bg) /\ ("module" \in w.havoc \/ nr.dot = mr.dot) /\ ("imgBg" \in w.havoc \/ nr.imgBg = mr.imgBg)
  /\ ("pos" \in w.havoc \/ nr.pos = mr.pos)
\* the projected documents agree except in the fields a havoc register feeds
ObsEqualModulo(o, no, hv) ==
  /\ o.wellformed = no.wellformed /\ o.root = no.root /\ o.viewbox = no.viewbox /\ o.kinds = no.kinds
  /\ Len(o.rects) = Len(no.rects) /\ Len(o.layers) = Len(no.layers) /\ Len(o.images) = Len(no.images)
  /\ \A i \in DOMAIN o.rects : i \in DOMAIN no.rects =>
        /\ o.rects[i].w = no.rects[i].w /\ o.rects[i].h = no.rects[i].h /\ o.rects[i].rx = no.rects[i].rx
        /\ ((i = 2 /\ "pos" \in hv) \/ (o.rects[i].x = no.rects[i].x /\ o.rects[i].y = no.rects[i].y))
        /\ ((i = 1 /\ "bg" \in hv) \/ (i = 2 /\ "imgBg" \in hv) \/ o.rects[i].fill = no.rects[i].fill)
  /\ \A i \in DOMAIN o.layers : i \in DOMAIN no.layers =>
        /\ o.layers[i].cells = no.layers[i].cells /\ o.layers[i].strays = no.layers[i].strays /\ o.layers[i].parsed = no.layers[i].parsed
        /\ ("module" \in hv \/ (o.layers[i].fill = no.layers[i].fill /\ o.layers[i].stroke = no.layers[i].stroke))
  /\ \A i \in DOMAIN o.images : i \in DOMAIN no.images =>
        /\ o.images[i].href = no.images[i].href /\ o.images[i].w = no.images[i].w /\ o.images[i].h = no.images[i].h
        /\ ("pos" \in hv \/ (o.images[i].x = no.images[i].x /\ o.images[i].y = no.images[i].y))
WasmSvgStep(k, rec) ==
  LET w == W_After(rec.program)
      b == [input |-> rec.content, ecl |-> w.ecl, mode |-> -1, version |-> w.version, mask |-> -1]
      expect == ExpectedOutcome(b)
      nat == rec.native.out
  IN /\ Require(rec.kind = "Ok", k, rec, "C17", "entry point or setter trapped: " \o rec.kind)
     /\ (rec.kind = "Ok" =>
          /\ Require(rec.native.opts.ecl = w.ecl /\ rec.native.opts.version = w.version /\ SameSettings(w, RegsAfter(rec.native_program)), k, rec, "TOOL",
                      "harness and model disagree on what the same settings are")
          /\ IF expect # "Ok" THEN Require(rec.empty = 1, k, rec, "C17", "content cannot be encoded but the SVG export is not empty")
             ELSE /\ Require(rec.empty = 0, k, rec, "C17", "empty SVG export for encodable content")
                  /\ ((rec.empty = 0 /\ nat.kind = "Ok") =>
                        /\ Require(w.havoc # {} \/ rec.native_eq = 1, k, rec, "C17", "SVG export differs from the native builder output for the same settings")
                        /\ Require(ObsEqualModulo(rec.obs, rec.nobs, w.havoc), k, rec, "C17",
                                    "SVG export differs from the native builder output in a part the options determine (structure, cells, colours, image, frame)")))
WasmQrStep(k, rec) ==
  LET b == [input |-> rec.content, ecl |-> "none", mode |-> -1, version |-> -1, mask |-> -1]
      expect == ExpectedOutcome(b)
      nat == rec.native.out
  IN /\ Require(rec.kind = "Ok", k, rec, "C17", "entry point or setter trapped: " \o rec.kind)
     /\ (rec.kind = "Ok" =>
           IF expect # "Ok" THEN Require(rec.len = 0, k, rec, "C17", "content cannot be encoded but the matrix export is not empty")
           ELSE /\ Require(rec.len > 0 /\ rec.all01 = 1 /\ rec.side * rec.side = rec.len, k, rec, "C17", "matrix export is not size*size bytes of 0/1")
                /\ Require(nat.kind # "Ok" \/ (rec.side = nat.size /\ rec.vals = nat.vals), k, rec, "C17", "matrix export differs from the native build with default options"))

(* ---------------- histories: New / Set / Build on several builders and threads (C14) ---------------- *)
\* st.regs: sequence of <<bid, registers>>; st.memo: sequence of <<registers, result>> of the builds of this history;
\* st.rmemo: sequence of <<qrid, renderer, hash>>.
\* a new history starts with no builders; the memo of (registers -> result) is kept across the histories of a shard:
\* equal input and final option values must give equal results whatever happened before, in any history
Fresh(s, rec) == IF s.grp = rec.grp THEN s ELSE [grp |-> rec.grp, U |-> <<>>, regs |-> <<>>, memo |-> s.memo, rmemo |-> <<>>, pens |-> <<>>]
Lookup(seq, key) == LET hits == SelectSeq(seq, LAMBDA e : e[1] = key) IN IF Len(hits) = 0 THEN <<>> ELSE hits[Len(hits)]
HNewStep(k, rec, s0) == LET s == Fresh(s0, rec) IN
  [s EXCEPT !.regs = Append(SelectSeq(s.regs, LAMBDA e : e[1] # rec.bid), <<rec.bid, NewRegs(rec.input)>>)]
\* SetMode / SetEcl / SetVersion / SetMask: overwrite one register, last value wins
HSetStep(k, rec, s0) == LET s == Fresh(s0, rec) cur == Lookup(s.regs, rec.bid) IN
  IF cur = <<>> THEN (IF Require(FALSE, k, rec, "TOOL", "setter on an unknown builder") THEN s ELSE s)
  ELSE [s EXCEPT !.regs = Append(SelectSeq(s.regs, LAMBDA e : e[1] # rec.bid), <<rec.bid, [cur[2] EXCEPT ![rec.opt] = rec.val]>>)]
\* BuildStart .. Return with the registers the MODEL holds for that builder; equal registers, equal results (any thread)
HBuildStep(k, rec, ly, s0) == LET s == Fresh(s0, rec) cur == Lookup(s.regs, rec.bid) IN
  IF cur = <<>> THEN (IF Require(FALSE, k, rec, "TOOL", "build on an unknown builder") THEN s ELSE s)
  ELSE LET b == cur[2]
           prev == Lookup(s.memo, b)
           same == ~InDomain(b) \/ prev = <<>> \/ prev[2] = rec.out      \* a rejected request (BuildUnspecified) carries no claim, what follows it does
           s1 == BuildStep(k, [rec EXCEPT !.grp = 0], b, ly, s)      \* every pipeline property, on the model's registers
           o == rec.out
           reflects == IF ~InDomain(b) THEN TRUE ELSE IF o.kind = "Ok" THEN /\ ExpectedOutcome(b) = "Ok" /\ o.ecl = WantLevel(b)
                                            /\ (b.mask < 0 \/ o.mask = b.mask) /\ (b.version < 1 \/ o.version = b.version) /\ (b.mode < 0 \/ o.mode = b.mode)
                       ELSE o.kind # "Err" \/ ExpectedOutcome(b) = o.why
       IN IF /\ Require(reflects, k, rec, "C14", "build does not reflect the final option values of its builder (last value wins, nothing else leaks in)")
             /\ Require(same, k, rec, "C14", "two builds with the same input and final option values returned different results")
          THEN [s1 EXCEPT !.grp = rec.grp, !.memo = IF prev = <<>> THEN Append(s.memo, <<b, rec.out>>) ELSE s.memo]
          ELSE [s1 EXCEPT !.grp = rec.grp]
HRenderStep(k, rec, s0) == LET s == Fresh(s0, rec)
                               key == <<rec.qrid, rec.renderer>>
                               prev == Lookup(s.rmemo, key) IN
  IF /\ Require(rec.qr_unchanged = 1, k, rec, "C14", "rendering modified the QR code")
     /\ Require(prev = <<>> \/ prev[2] = rec.hash, k, rec, "C14", "two renderings of the same QR code with the same options differ")
     \* the two shared QR codes differ, and every renderer reproduces every module: equal output for both means the output
     \* came from somewhere else than the QR code it was given
     /\ Require(\A i \in DOMAIN s.rmemo : (s.rmemo[i][1][2] = rec.renderer /\ s.rmemo[i][1][1] # rec.qrid) => s.rmemo[i][2] # rec.hash, k, rec, "C14",
                 "renderings of two different QR codes coincide: the output does not depend on the QR code alone")
  THEN [s EXCEPT !.rmemo = IF prev = <<>> THEN Append(s.rmemo, <<key, rec.hash>>) ELSE s.rmemo]
  ELSE s

(* ---------------- growth: conversions and the Module API (reported under G-ids, never under a listed property) ---------------- *)
ConvColorStep(k, rec) ==
  IF rec.how = "str" THEN Require(rec.kind = "Ok" /\ rec.out = rec.c, k, rec, "G03", "colour string not passed through")
  ELSE IF Len(rec.c) \in {3, 4}
  THEN /\ Require(rec.kind = "Ok", k, rec, "G03", "colour conversion did not return: " \o rec.kind)
       /\ Require(rec.kind # "Ok" \/ rec.out = ColorCps(rec.c), k, rec, "G03", "RGBA array not rendered as #rrggbb / #rrggbbaa")
  ELSE Require(rec.kind # "Ok" /\ rec.kind # "Timeout", k, rec, "G03", "slice of the wrong length accepted (documented: panics with Invalid color length)")
ShapeNames == << <<115,113,117,97,114,101>>, <<99,105,114,99,108,101>>, <<114,111,117,110,100,101,100,95,115,113,117,97,114,101>>,
                 <<118,101,114,116,105,99,97,108>>, <<104,111,114,105,122,111,110,116,97,108>>, <<100,105,97,109,111,110,100>> >>
ConvShapeStep(k, rec) ==
  LET low == [i \in 1..Len(rec.name) |-> LowerCp(rec.name[i])]
      want == IF \E j \in 1..6 : ShapeNames[j] = low THEN (CHOOSE j \in 1..6 : ShapeNames[j] = low) - 1 ELSE 0     \* unknown names fall back to square
  IN /\ Require(rec.index = want, k, rec, "G03", "shape name parsed to the wrong shape")
     /\ Require(rec.back = ShapeNames[rec.index + 1], k, rec, "G03", "shape does not print its own name")
\* a module is a (value, type) pair: constructors build it, set overwrites the value, toggle flips it, the type never changes
ModuleApiStep(k, rec) ==
  /\ Require(rec.new = <<rec.value, rec.type>> /\ rec.ctor = <<rec.value, rec.type>>, k, rec, "G04", "module constructor")
  /\ Require(rec.set1 = <<1, rec.type>> /\ rec.set0 = <<0, rec.type>>, k, rec, "G04", "Module::set changes more than the value")
  /\ Require(rec.toggle = <<1 - rec.value, rec.type>>, k, rec, "G04", "Module::toggle changes more than the value")
QrDefaultStep(k, rec) ==
  Require(rec.reported = rec.size /\ rec.all_default = 1 /\ rec.rowlen = rec.size /\ rec.fields_none = 1, k, rec, "G04", "QRCode::default is not an all-light, all-data square without fields")

\* custom shape callbacks: called once per dark module, with (row + margin, column + margin) and with the module of that very
\* cell (value dark, its own type label) -- the map a region-aware callback sees is the map C15 is about
CallbackStep(k, rec) ==
  IF rec.kind # "Ok" THEN OkKind(k, rec, "C12")
  ELSE LET n == rec.size m == rec.margin
           T == UnpackTypes(n, rec.types)
           dark == { q \in (0..n-1) \X (0..n-1) : DarkAt(rec.vals, q[1], q[2]) }
           want == { <<q[2] + m, q[1] + m, IF rec.which = 0 THEN T[q[1]*n + q[2] + 1] + 1 ELSE 5>> : q \in dark }
           got == { rec.cells[i] : i \in DOMAIN rec.cells }
       IN /\ Require(rec.parsed = 1, k, rec, "C12", "document is not well-formed XML")
          /\ Require(Len(rec.cells) = Cardinality(dark) /\ { <<c[1], c[2]>> : c \in got } = { <<w[1], w[2]>> : w \in want }, k, rec, "C12", "sub-paths are not exactly the dark modules")
          /\ Require(got = want, k, rec, "C15", "a custom shape callback is handed a module whose value or type label is not that of its cell")
ApiContractsStep(k, rec) ==
  /\ Require(rec.levels = << <<76>>, <<77>>, <<81>>, <<72>> >>, k, rec, "G03", "error-correction level does not print as its letter")
  /\ Require(Len(rec.err_display[1]) > 0 /\ Len(rec.err_display[2]) > 0 /\ rec.err_display[1] # rec.err_display[2] /\ Len(rec.err_debug[1]) > 0 /\ rec.err_debug[1] # rec.err_debug[2],
              k, rec, "G03", "the two build errors do not print as two different non-empty messages")
  /\ Require(rec.convert = <<"Io", "Svg", "Io", "Image", "Image">>, k, rec, "G03", "renderer error converted to the wrong ConvertError kind")
  /\ Require(rec.module_eq = <<1, 1, 1, 0, 1, 0>>, k, rec, "G04", "Module comparison / From<bool>")
  /\ Require(rec.image_err_display = <<98, 111, 111, 109>>, k, rec, "G03", "ImageError does not print its message")

RasterSessionStep(k, rec) ==
  /\ OkKind(k, rec, "C13")
  /\ Require(\A i \in DOMAIN rec.renders : rec.renders[i][3] = 1, k, rec, "C14", "a rendering depends on earlier renderings or on the order of setter calls and renderings of its builder, not on the final options alone")

\* soak: the n-th build of a builder and the n-th rendering of a code equal the first ones, for every n of a long run
HSoakStep(k, rec) ==
  /\ Require(rec.kind = "Ok", k, rec, "C10", rec.kind)
  /\ Require(rec.kind # "Ok" \/ rec.same_build = rec.calls, k, rec, "C14", "a later build of the same input and options differs from the first one (how often a builder or the process has been used matters)")
  /\ Require(rec.kind # "Ok" \/ rec.same_render = rec.calls, k, rec, "C14", "a later rendering of the same QR code with the same options differs from the first one")

StepOf(k, rec, ly, s) ==
  CASE rec.ev = "HSoak" -> (IF HSoakStep(k, rec) THEN s ELSE s)
    [] rec.ev = "RasterSession" -> (IF RasterSessionStep(k, rec) THEN s ELSE s)
    [] rec.ev = "SvgCallback" -> (IF CallbackStep(k, rec) THEN s ELSE s)
    [] rec.ev = "ApiContracts" -> (IF ApiContractsStep(k, rec) THEN s ELSE s)
    [] rec.ev = "ConvColor" -> (IF ConvColorStep(k, rec) THEN s ELSE s)
    [] rec.ev = "ConvShape" -> (IF ConvShapeStep(k, rec) THEN s ELSE s)
    [] rec.ev = "ModuleApi" -> (IF ModuleApiStep(k, rec) THEN s ELSE s)
    [] rec.ev = "QrDefault" -> (IF QrDefaultStep(k, rec) THEN s ELSE s)
    [] rec.ev = "HNew" -> HNewStep(k, rec, s)
    [] rec.ev = "HSet" -> HSetStep(k, rec, s)
    [] rec.ev = "HBuild" -> HBuildStep(k, rec, ly, s)
    [] rec.ev = "HRender" -> HRenderStep(k, rec, s)
    [] rec.ev = "Build" -> BuildStep(k, rec, RegsOf(rec), ly, s)
    [] rec.ev = "WasmSvg" -> (IF WasmSvgStep(k, rec) THEN s ELSE s)
    [] rec.ev = "WasmQr" -> (IF WasmQrStep(k, rec) THEN s ELSE s)
    [] rec.ev = "FileOp" -> (IF FileStep(k, rec) THEN s ELSE s)
    [] rec.ev = "FileSkip" -> s
    [] rec.ev = "Text" -> (IF TextStep(k, rec) THEN s ELSE s)
    [] rec.ev = "Svg" -> (IF SvgStep(k, rec, TRUE) THEN s ELSE s)
    [] rec.ev = "SvgFrame" -> (IF SvgStep(k, rec, FALSE) THEN s ELSE s)
    [] rec.ev = "FrameSweep" -> (IF FrameSweepStep(k, rec) THEN s ELSE s)
    [] rec.ev = "Raster" -> (IF RasterStep(k, rec) THEN s ELSE s)
    [] rec.ev = "Corrupt" -> CorruptStep(k, rec, ly, s)
    [] rec.ev = "VersionGetRun" -> (IF VGetStep(k, rec) THEN s ELSE s)
    [] rec.ev = "Encode" -> (IF EncodeStep(k, rec) THEN s ELSE s)
    [] rec.ev = "Poly" -> (IF PolyStep(k, rec) THEN s ELSE s)
    [] rec.ev = "Division" -> (IF DivisionStep(k, rec) THEN s ELSE s)
    [] rec.ev = "DivBlock" -> (IF DivBlockStep(k, rec) THEN s ELSE s)
    [] rec.ev = "Tables" -> (IF TablesStep(k, rec) THEN s ELSE s)
    [] rec.ev = "Blank" -> (IF BlankStep(k, rec, ly) THEN s ELSE s)
    [] rec.ev = "MaskOp" -> (IF MaskOpStep(k, rec, ly) THEN s ELSE s)
    [] rec.ev = "BestMode" -> (IF BestModeStep(k, rec) THEN s ELSE s)
    [] rec.ev = "Compact" -> (IF CompactStep(k, rec) THEN s ELSE s)
    [] rec.ev = "Candidates" -> (IF CandStep(k, rec, ly) THEN s ELSE s)
    [] OTHER -> (IF Require(FALSE, k, rec, "TOOL", "unknown event kind") THEN s ELSE s)

Init == l = 1 /\ lay = NoLayout /\ st = [grp |-> 0, U |-> <<>>, regs |-> <<>>, memo |-> <<>>, rmemo |-> <<>>, pens |-> <<>>] /\ TLCSet(1, 0)
Step == /\ l <= Len(Rec)
        /\ lay' = NextLay(lay, Rec[l])
        /\ st' = StepOf(l, Rec[l], lay', st)
        /\ l' = l + 1
Spec == Init /\ [][Step]_vars
Accepted == /\ PrintT(<<"POST", TLCGet("stats").diameter, Len(Rec), TLCGet(1)>>)
            /\ TLCGet("stats").diameter = Len(Rec) + 1
=============================================================================
