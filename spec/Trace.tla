--------------------------------- MODULE Trace ---------------------------------
(***************************************************************************)
(* Trace specification: consumes ndjson events recorded from the real      *)
(* crate (IOEnv.TRACE) and requires every event to be a step of the        *)
(* specification.  One disjunct of the step per event kind.                *)
(*                                                                         *)
(* A trace action is always enabled: when the logged values are not what   *)
(* the specification allows it prints a DIAG line naming the property,     *)
(* bumps TLC register 1 and resynchronises on the logged state, so every   *)
(* event of a shard is judged (-workers 1).  All heavy work sits on the    *)
(* right-hand side of an equality (TLC evaluates LETs lazily and uncached  *)
(* in action position).                                                    *)
(***************************************************************************)
EXTENDS QRProps, Json, IOUtils

Rec == ndJsonDeserialize(IOEnv.TRACE)

VARIABLES l,      \* next line of the trace
          lay,    \* Layout of the version last seen (computed once per run of equal versions)
          st      \* trace state: [grp, U] unmasked symbol of the current same-payload group (C08)
vars == <<l, lay, st>>

Diag(k, rec, prop, why) == PrintT(<<"DIAG", ToJson([line |-> k, id |-> rec.id, tag |-> rec.tag, property |-> prop, why |-> why])>>) /\ TLCSet(1, TLCGet(1) + 1)
Require(cond, k, rec, prop, why) == IF cond THEN TRUE ELSE Diag(k, rec, prop, why)

(* ---------------- unpacking ---------------- *)
\* module values travel 24 per integer, labels 8 per integer (3 bits each), row by row
UnpackVals(n, vals) == TLCEval([i \in 1..n*n |-> LET r == (i-1) \div n c == (i-1) % n IN Bit(vals[r+1][(c \div 24)+1], c % 24)])
UnpackTypes(n, types) == TLCEval([i \in 1..n*n |-> LET r == (i-1) \div n c == (i-1) % n IN (types[r+1][(c \div 8)+1] \div (8^(c % 8))) % 8])
RegsOf(rec) == [input |-> rec.input, ecl |-> rec.opts.ecl, mode |-> rec.opts.mode, version |-> rec.opts.version, mask |-> rec.opts.mask]

(* ---------------- Build: BuildStart .. Return composed ---------------- *)
EvSize(rec) == IF rec.ev = "Build" /\ rec.out.kind = "Ok" THEN rec.out.size
               ELSE 0
NextLay(cur, rec) == LET v == VersionOfSize(EvSize(rec)) IN
                     IF v = 0 THEN cur ELSE IF cur.v = v THEN cur ELSE Layout(v)

BuildOk(k, rec, ly, s) ==
  LET b == RegsOf(rec)
      out == rec.out
      n == out.size
      o == [n |-> n, M |-> UnpackVals(n, out.vals), T |-> UnpackTypes(n, out.types),
            ecl |-> out.ecl, mask |-> out.mask, version |-> out.version, mode |-> out.mode, tail_clean |-> out.tail_clean]
      d == Decode(n, o.M, ly, out.ecl, IF out.mask >= 0 THEN out.mask ELSE 0)
      U == UnmaskedOf(n, o.M, ly, d.fm)
      checks ==
        /\ Require(NothingOutsideSquare(o), k, rec, "C03", "module outside the size x size square modified")
        /\ Require(FunctionPatternsExact(o, ly), k, rec, "C03", "function pattern value")
        /\ Require(LabelsExact(o, ly), k, rec, "C15", "type label differs from ISO region")
        /\ Require(DataLabelCount(o, ly), k, rec, "C15", "number of data labels")
        /\ Require(FormatCopiesExact(d), k, rec, "C04", "format information copies")
        /\ Require(VersionInfoExact(d, ly), k, rec, "C04", "version information")
        /\ Require(ReportedFieldsTruth(o, d, ly), k, rec, "C04", "reported level/mask/version differ from the symbol")
        /\ Require(ReportedModeTruth(o, d, ly), k, rec, "C04", "reported mode differs from the mode indicator")
        /\ Require(ForcedOptionsHonoured(b, d, ly), k, rec, "C04", "forced option or default level not honoured")
        /\ Require(CodewordCount(d, ly), k, rec, "C02", "codeword count")
        /\ Require(RemainderBitsZero(d), k, rec, "C02", "remainder bits")
        /\ Require(BlockShape(d, ly), k, rec, "C02", "block layout")
        /\ Require(SyndromesZero(d), k, rec, "C02", "syndromes")
        /\ Require(ECIsRemainder(d), k, rec, "C07", "EC codewords are not the remainder")
        /\ Require(RoundTrip(b, o, d, ly), k, rec, "C01", "round trip")
        /\ Require(AutoModeCompact(b, o), k, rec, "C09", "mode")
        /\ Require(MinimalVersion(b, o, d, ly), k, rec, "C05", "version")
        /\ Require(DataCodewordsISO(b, o, d, ly), k, rec, "C06", "data bits")
        /\ Require(rec.grp = 0 \/ s.grp # rec.grp \/ s.U = U, k, rec, "C08", "unmasked symbol differs from the same payload under another mask")
  IN IF checks THEN [grp |-> rec.grp, U |-> IF rec.grp = 0 THEN <<>> ELSE IF s.grp = rec.grp THEN s.U ELSE U]
     ELSE s

BuildStep(k, rec, ly, s) ==
  LET b == RegsOf(rec) IN
  IF ~InDomain(b) THEN s                                        \* BuildUnspecified: no claim
  ELSE IF rec.out.kind = "Ok" THEN
     IF VersionOfSize(rec.out.size) = 0 \/ ly.v # VersionOfSize(rec.out.size)
     THEN (IF Require(FALSE, k, rec, "C03", "side is not 17+4v") THEN s ELSE s)
     ELSE IF ExpectedOutcome(b) # "Ok"
     THEN (IF Require(FALSE, k, rec, "C05", "symbol returned where an error is documented") THEN BuildOk(k, rec, ly, s) ELSE s)
     ELSE BuildOk(k, rec, ly, s)
  ELSE IF rec.out.kind = "Err" THEN
     (IF Require(ExpectedOutcome(b) = rec.out.why, k, rec, "C05", "error outcome") THEN s ELSE s)
  ELSE (IF Require(FALSE, k, rec, "C10", rec.out.kind) THEN s ELSE s)     \* Panic / Timeout match no action

StepOf(k, rec, ly, s) ==
  CASE rec.ev = "Build" -> BuildStep(k, rec, ly, s)
    [] OTHER -> (IF Require(FALSE, k, rec, "TOOL", "unknown event kind") THEN s ELSE s)

Init == l = 1 /\ lay = NoLayout /\ st = [grp |-> 0, U |-> <<>>] /\ TLCSet(1, 0)
Step == /\ l <= Len(Rec)
        /\ lay' = NextLay(lay, Rec[l])
        /\ st' = StepOf(l, Rec[l], lay', st)
        /\ l' = l + 1
Spec == Init /\ [][Step]_vars
Accepted == /\ PrintT(<<"POST", TLCGet("stats").diameter, Len(Rec), TLCGet(1)>>)
            /\ TLCGet("stats").diameter = Len(Rec) + 1
=============================================================================
