SPECIFICATION Spec
CONSTANTS
  Builders <- MC_Builders
  Threads <- MC_Threads
  Opts <- Opts_ModeVersion
  MaxLen = 5
CHECK_DEADLOCK FALSE
INVARIANT Deterministic
INVARIANT SnapshotIsRegisters
INVARIANT Replay
PROPERTY BuildReadOnly
