SPECIFICATION Spec
CONSTANTS
  Builders <- MC_Builders
  Threads <- MC_Threads
  Inputs <- MC_InputsThorough
  LevelOpts <- MC_LevelsAll
  ModeOpts <- MC_ModesAll
  VersionOpts <- MC_VersionsThorough
  MaskOpts <- MC_MasksAll
  MaxSets = 0
VIEW view
CHECK_DEADLOCK FALSE
INVARIANT OutcomeTotal
INVARIANT RoundTripInv
INVARIANT BlocksValidInv
INVARIANT ECIsRemainderInv
INVARIANT FormatVersionTruthInv
INVARIANT MinimalVersionInv
INVARIANT DataCodewordsISOInv
INVARIANT AutoModeCompactInv
INVARIANT FunctionPatternsInv
INVARIANT StagedEqualsClosedForm
INVARIANT MaskMinimalInv
INVARIANT MaskExactInv
INVARIANT Deterministic
PROPERTY BuildReadOnly
PROPERTY Progress
INVARIANT StageKnown
