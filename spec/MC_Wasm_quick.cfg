SPECIFICATION Spec
CONSTANTS
  Alphabet <- MC_Alphabet
  MaxLen = 2
CHECK_DEADLOCK FALSE
INVARIANT TypeOK
INVARIANT HavocExact
INVARIANT Replay
