------------------------------ MODULE MC_Lemmas ------------------------------
(* The oracle protects itself: consistency lemmas of the pure layers, evaluated by TLC.  State x = 0 carries the
   field / table / encoder / mask lemmas, state x = v the geometric lemmas of version v. *)
EXTENDS QRProps
CONSTANT MaxV
VARIABLE x
Init == x = 0
Next == x < MaxV /\ x' = x + 1
Spec == Init /\ [][Next]_x
LemmaInv == /\ (x = 0 => FieldLemmas /\ TableLemmas /\ EncodeLemmas /\ MaskLemmas)
            /\ (x >= 1 => LayoutLemmas(x))
            /\ (x \in {1, 2, 7} => PenaltyLemma(Layout(x)))
\* Berlekamp-Massey on a known codeword: corrects floor(d/2) errors, gives up beyond
BMLemma == x # 0 \/
  LET d == 10 data == <<32, 91, 11, 120, 209, 114, 220, 77, 67, 64, 236, 17, 236, 17, 236, 17>>
      cw == data \o RSRemainder(data, d)
      hit(s, ps) == [k \in 1..Len(s) |-> IF k \in ps THEN s[k] ^^ (37 + k) ELSE s[k]]
  IN /\ \A k \in 0..d-1 : Syndrome(cw, k) = 0
     /\ BMDecode(cw, d) = cw
     /\ BMDecode(hit(cw, {1}), d) = cw
     /\ BMDecode(hit(cw, {2, 9, 16, 20, 26}), d) = cw
     /\ BMDecode(hit(cw, {1, 2, 3, 4, 5}), d) = cw
     /\ BMDecode(hit(cw, {1, 2, 3, 4, 5, 6}), d) # cw
==============================================================================
