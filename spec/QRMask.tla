-------------------------------- MODULE QRMask --------------------------------
(***************************************************************************)
(* ISO Table 10 mask conditions (i = row, j = column) and the penalty the  *)
(* crate documents: N-2 per run of N >= 5 equal encoding-region modules    *)
(* along rows and columns, 40 per 1011101 window of seven encoding-region  *)
(* modules, 3 per 2x2 block of equal encoding-region modules, 10 per 5%    *)
(* step of the dark ratio away from 50%.  All terms are per-cell closed    *)
(* forms over a value array `val` (0/1) and an encoding-region indicator   *)
(* `dat` (BOOLEAN), both on 1..n*n.                                        *)
(***************************************************************************)
EXTENDS QRLayout

MaskCond(m, r, c) ==
  CASE m = 0 -> (r + c) % 2 = 0
    [] m = 1 -> r % 2 = 0
    [] m = 2 -> c % 3 = 0
    [] m = 3 -> (r + c) % 3 = 0
    [] m = 4 -> ((r \div 2) + (c \div 3)) % 2 = 0
    [] m = 5 -> ((r*c) % 2) + ((r*c) % 3) = 0
    [] m = 6 -> (((r*c) % 2) + ((r*c) % 3)) % 2 = 0
    [] m = 7 -> (((r+c) % 2) + ((r*c) % 3)) % 2 = 0

\* mask m applied to the encoding region of M (an involution)
MaskedOf(lay, M, m) == LET n == lay.n IN
  TLCEval([i \in 1..n*n |-> IF lay.reg[i] = 0 /\ MaskCond(m, (i-1) \div n, (i-1) % n) THEN 1 - M[i] ELSE M[i]])

RunEnd(val, dat, n, r, c, dr, dc, k) ==
   /\ r - (k-1)*dr >= 0 /\ c - (k-1)*dc >= 0
   /\ \A j \in 0..(k-1) : dat[Idx(n, r - j*dr, c - j*dc)] /\ val[Idx(n, r - j*dr, c - j*dc)] = val[Idx(n, r, c)]
\* 3 when the cell is the 5th of a run, 1 when it is the 6th or later: sums to N-2 per maximal run of N >= 5
RunScoreAt(val, dat, n, r, c, dr, dc) ==
   IF ~dat[Idx(n,r,c)] THEN 0 ELSE IF RunEnd(val, dat, n, r, c, dr, dc, 6) THEN 1 ELSE IF RunEnd(val, dat, n, r, c, dr, dc, 5) THEN 3 ELSE 0
Pat == <<1,0,1,1,1,0,1>>
PatAt(val, dat, n, r, c, dr, dc) ==
   IF /\ r - 6*dr >= 0 /\ c - 6*dc >= 0
      /\ \A j \in 0..6 : dat[Idx(n, r - j*dr, c - j*dc)] /\ val[Idx(n, r - j*dr, c - j*dc)] = Pat[7-j]
   THEN 40 ELSE 0
SquareAt(val, dat, n, r, c) ==
   IF r < n-1 /\ c < n-1 /\ dat[Idx(n,r,c)] /\ dat[Idx(n,r,c+1)] /\ dat[Idx(n,r+1,c)] /\ dat[Idx(n,r+1,c+1)]
      /\ val[Idx(n,r,c)] = val[Idx(n,r,c+1)] /\ val[Idx(n,r,c)] = val[Idx(n,r+1,c)] /\ val[Idx(n,r,c)] = val[Idx(n,r+1,c+1)]
   THEN 3 ELSE 0
RowTerms(val, dat, n) == FoldLeft(LAMBDA acc, i : LET r == (i-1) \div n c == (i-1) % n IN acc + RunScoreAt(val, dat, n, r, c, 0, 1) + PatAt(val, dat, n, r, c, 0, 1), 0, Range1(n*n))
ColTerms(val, dat, n) == FoldLeft(LAMBDA acc, i : LET r == (i-1) \div n c == (i-1) % n IN acc + RunScoreAt(val, dat, n, r, c, 1, 0) + PatAt(val, dat, n, r, c, 1, 0), 0, Range1(n*n))
SqTerms(val, dat, n) == FoldLeft(LAMBDA acc, i : acc + SquareAt(val, dat, n, (i-1) \div n, (i-1) % n), 0, Range1(n*n))
\* 10 per full 5% step: floor(|dark/n^2 - 1/2| / 0.05) = floor(|2 dark - n^2| * 10 / n^2); n^2 is odd so no ratio sits on a step
DarkTerm(val, n) == LET dark == FoldLeft(LAMBDA acc, i : acc + val[i], 0, Range1(n*n)) IN 10 * ((AbsI(2*dark - n*n) * 10) \div (n*n))
\* the documented penalty, per-cell closed form (reference formulation)
PenaltyRef(val, dat, n) == RowTerms(val, dat, n) + ColTerms(val, dat, n) + SqTerms(val, dat, n) + DarkTerm(val, n)

\* The same penalty as one scan per line (what TLC evaluates; MC_Lemmas checks it equal to PenaltyRef):
\* state = <<score, run length, previous value, 7-bit window, number of consecutive encoding-region modules in the window>>
LineStep(st, v, d) ==
  IF ~d THEN <<st[1], 0, 0, 0, 0>>
  ELSE LET run == IF st[2] > 0 /\ st[3] = v THEN st[2] + 1 ELSE 1
           w == (2 * st[4] + v) % 128
           wn == IF st[5] >= 7 THEN 7 ELSE st[5] + 1
       IN <<st[1] + (IF run = 5 THEN 3 ELSE IF run > 5 THEN 1 ELSE 0) + (IF wn = 7 /\ w = 93 THEN 40 ELSE 0), run, v, w, wn>>
LineScore(val, dat, first, step, n) ==
  FoldLeft(LAMBDA st, k : LineStep(st, val[first + (k-1)*step], dat[first + (k-1)*step]), <<0, 0, 0, 0, 0>>, Range1(n))[1]
LineTerms(val, dat, n) == FoldLeft(LAMBDA acc, k : acc + LineScore(val, dat, (k-1)*n + 1, 1, n) + LineScore(val, dat, k, n, n), 0, Range1(n))
Penalty(val, dat, n) == LineTerms(val, dat, n) + SqTerms(val, dat, n) + DarkTerm(val, n)
DataIndicator(lay) == TLCEval([i \in 1..lay.n*lay.n |-> lay.reg[i] = 0])

\* scan formulation = per-cell formulation, on V1 and V2 layouts filled with three different patterns under all eight masks
PenaltyLemma(lay) == LET n == lay.n dat == DataIndicator(lay) IN
  \A k \in 0..2 : \A m \in 0..7 :
     LET val == TLCEval([i \in 1..n*n |-> IF lay.reg[i] = 0
                                         THEN (IF MaskCond(m, (i-1) \div n, (i-1) % n) THEN 1 ELSE 0 + (IF ((i * (k + 3)) % 7) < 3 THEN 1 ELSE 0)) % 2
                                         ELSE IF (i % (k + 2)) = 0 THEN 1 ELSE 0])
     IN Penalty(val, dat, n) = PenaltyRef(val, dat, n)
MaskLemmas ==
  \* the eight conditions are pairwise different on the 12 x 12 tile that contains every period
  /\ \A a, b \in 0..7 : a < b => \E r \in 0..11, c \in 0..11 : MaskCond(a, r, c) # MaskCond(b, r, c)
  \* every condition is periodic with period dividing 12 in both directions (so a 12x12 tile is exhaustive)
  /\ \A m \in 0..7 : \A r \in 0..11, c \in 0..11 : MaskCond(m, r, c) = MaskCond(m, r+12, c) /\ MaskCond(m, r, c) = MaskCond(m, r, c+12)
=============================================================================
