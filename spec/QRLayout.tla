------------------------------- MODULE QRLayout -------------------------------
(***************************************************************************)
(* Geometry of a version-v symbol from first principles: which region each *)
(* coordinate belongs to, the value of every function-pattern module, the  *)
(* positions of the format and version information bits, and the zig-zag   *)
(* placement order of the encoding region.  Coordinates are 0-based        *)
(* (r = row, c = column); a matrix is a function on 1..n*n with            *)
(* index r*n + c + 1.                                                      *)
(*                                                                         *)
(* Region codes are the crate's public ModuleType discriminants:           *)
(* 0 data, 1 finder, 2 alignment, 3 timing, 4 format, 5 version,           *)
(* 6 dark module, 7 separator ("Empty").                                   *)
(***************************************************************************)
EXTENDS QRTables

Idx(n, r, c) == r*n + c + 1
RowOf(n, i) == (i-1) \div n
ColOf(n, i) == (i-1) % n

\* band[x] = centre a of the alignment band containing coordinate x (|x - a| <= 2), or 0
BandOf(v) == LET as == AlignSeq(v) n == Size(v) IN
   TLCEval([x \in 0..n-1 |-> FoldLeft(LAMBDA acc, a : IF AbsI(x - a) <= 2 THEN a ELSE acc, 0, as)])

RegionCode(v, n, band, r, c) ==
  IF (r <= 6 /\ c <= 6) \/ (r <= 6 /\ c >= n-7) \/ (r >= n-7 /\ c <= 6) THEN 1
  ELSE IF (r <= 7 /\ c <= 7) \/ (r <= 7 /\ c >= n-8) \/ (r >= n-8 /\ c <= 7) THEN 7
  ELSE IF r = n-8 /\ c = 8 THEN 6
  ELSE IF (r = 8 /\ c <= 8 /\ c # 6) \/ (c = 8 /\ r <= 8 /\ r # 6) \/ (r = 8 /\ c >= n-8) \/ (c = 8 /\ r >= n-7) THEN 4
  ELSE IF v >= 7 /\ ((r <= 5 /\ c >= n-11 /\ c <= n-9) \/ (c <= 5 /\ r >= n-11 /\ r <= n-9)) THEN 5
  ELSE IF band[r] # 0 /\ band[c] # 0 /\ ~(band[r] = 6 /\ band[c] = 6) /\ ~(band[r] = 6 /\ band[c] = n-7) /\ ~(band[r] = n-7 /\ band[c] = 6) THEN 2
  ELSE IF r = 6 \/ c = 6 THEN 3
  ELSE 0

\* value of a function-pattern module; defined for codes 1, 2, 3, 6, 7
FnDark(v, n, band, code, r, c) ==
  CASE code = 1 -> LET i == IF r >= n-7 THEN r - (n-7) ELSE r
                       j == IF c >= n-7 THEN c - (n-7) ELSE c
                   IN Max2(AbsI(i-3), AbsI(j-3)) # 2
    [] code = 2 -> Max2(AbsI(r - band[r]), AbsI(c - band[c])) # 1
    [] code = 3 -> (r + c) % 2 = 0
    [] code = 6 -> TRUE
    [] code = 7 -> FALSE

\* zig-zag: column pairs from the right, skipping column 6, alternately upwards and downwards
ZigZag(n) == TLCEval([q \in 1..(n-1)*n |->
               LET k == (q-1) \div (2*n)
                   t == (q-1) % (2*n)
                   x0 == n-1-2*k
                   x == IF x0 <= 6 THEN x0-1 ELSE x0
                   r == IF k % 2 = 0 THEN n-1-(t \div 2) ELSE t \div 2
                   c == x - (t % 2)
               IN r*n + c + 1])

Layout(v) ==
  LET n == Size(v)
      band == BandOf(v)
      reg == TLCEval([i \in 1..n*n |-> RegionCode(v, n, band, (i-1) \div n, (i-1) % n)])
      zz == ZigZag(n)
      order == TLCEval(SelectSeq(zz, LAMBDA i : reg[i] = 0))
  IN [v |-> v, n |-> n, band |-> band, reg |-> reg, order |-> order]
NoLayout == [v |-> 0]

\* bit b (0 = least significant) of the 15-bit format word: copy 1 around the top-left finder, copy 2 split
FormatPos1(b) == IF b <= 5 THEN <<b, 8>> ELSE IF b = 6 THEN <<7, 8>> ELSE IF b = 7 THEN <<8, 8>> ELSE IF b = 8 THEN <<8, 7>> ELSE <<8, 14-b>>
FormatPos2(n, b) == IF b <= 7 THEN <<8, n-1-b>> ELSE <<n-15+b, 8>>
\* bit b of the 18-bit version word: copy 1 top-right (6 rows x 3 columns), copy 2 bottom-left (transposed)
VersionPos1(n, b) == <<b \div 3, n - 11 + (b % 3)>>
VersionPos2(n, b) == <<n - 11 + (b % 3), b \div 3>>

LayoutLemmas(v) ==
  LET lay == Layout(v) n == lay.n IN
  /\ Len(lay.order) = RawModules(v)                                             \* geometric count = closed form
  /\ Cardinality({ lay.order[j] : j \in 1..Len(lay.order) }) = Len(lay.order)   \* no module visited twice
  /\ \A b \in 0..14 : lay.reg[Idx(n, FormatPos1(b)[1], FormatPos1(b)[2])] = 4 /\ lay.reg[Idx(n, FormatPos2(n, b)[1], FormatPos2(n, b)[2])] = 4
  /\ Cardinality({ i \in 1..n*n : lay.reg[i] = 4 }) = 30
  /\ (v >= 7 => \A b \in 0..17 : lay.reg[Idx(n, VersionPos1(n, b)[1], VersionPos1(n, b)[2])] = 5 /\ lay.reg[Idx(n, VersionPos2(n, b)[1], VersionPos2(n, b)[2])] = 5)
  /\ Cardinality({ i \in 1..n*n : lay.reg[i] = 5 }) = (IF v >= 7 THEN 36 ELSE 0)
  /\ Cardinality({ i \in 1..n*n : lay.reg[i] = 1 }) = 147 /\ Cardinality({ i \in 1..n*n : lay.reg[i] = 7 }) = 45
=============================================================================
