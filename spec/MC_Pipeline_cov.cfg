SPECIFICATION Spec
CONSTANTS
  Builders <- MC_Builders
  Threads <- MC_Threads
  Inputs <- MC_InputsCov
  LevelOpts <- MC_LevelsCov
  ModeOpts <- MC_ModesCov
  VersionOpts <- MC_VersionsCov
  MaskOpts <- MC_MasksCov
  MaxSets = 0
VIEW view
CHECK_DEADLOCK FALSE
INVARIANT OutcomeTotal
INVARIANT RoundTripInv
INVARIANT BlocksValidInv
INVARIANT ECIsRemainderInv
INVARIANT FormatVersionTruthInv
INVARIANT MinimalVersionInv
INVARIANT DataCodewordsISOInv
INVARIANT AutoModeCompactInv
INVARIANT FunctionPatternsInv
INVARIANT StagedEqualsClosedForm
INVARIANT MaskMinimalInv
INVARIANT MaskExactInv
INVARIANT Deterministic
PROPERTY BuildReadOnly
PROPERTY Progress
INVARIANT StageKnown
