------------------------------- MODULE QRDecode -------------------------------
(***************************************************************************)
(* The ISO/IEC 18004 reference decoding procedure as operators over an     *)
(* observed matrix: read both format copies, read the version words,       *)
(* unmask, read the codewords along the placement order, de-interleave     *)
(* into the Table 9 blocks, and parse the data codewords strictly as one   *)
(* segment.  Nothing here uses the encoder operators (DataBit etc.), so    *)
(* the decode path and the encode path check each other in MC_Pipeline.    *)
(***************************************************************************)
EXTENDS GF256, QRMask, QREncode

FormatTable == TLCEval([d \in 1..32 |-> BCH15(d - 1)])
\* index d (0..31) of the format word w, or -1 when w is not one of the 32 words
FormatIndex(w) == LET t == FormatTable IN FoldLeft(LAMBDA acc, d : IF t[d] = w THEN d - 1 ELSE acc, -1, Range1(32))
LevelOfBits(b) == <<"M", "L", "H", "Q">>[b + 1]

\* M: 1..n*n -> {0,1}; lay = Layout of the version given by the size; (fbE, fbM) are used to go on when the
\* format information is unreadable (the caller reports that separately)
Decode(n, M, lay, fbE, fbM) ==
  LET v == lay.v
      At(p) == M[p[1]*n + p[2] + 1]
      f1 == FoldLeft(LAMBDA acc, b : acc + At(FormatPos1(b)) * 2^b, 0, Range0(15))
      f2 == FoldLeft(LAMBDA acc, b : acc + At(FormatPos2(n, b)) * 2^b, 0, Range0(15))
      fi == FormatIndex(f1)
      fmtOK == fi >= 0 /\ f1 = f2
      fe == IF fmtOK THEN LevelOfBits(fi \div 8) ELSE fbE
      fm == IF fmtOK THEN fi % 8 ELSE fbM
      v1 == IF v >= 7 THEN FoldLeft(LAMBDA acc, b : acc + At(VersionPos1(n, b)) * 2^b, 0, Range0(18)) ELSE 0
      v2 == IF v >= 7 THEN FoldLeft(LAMBDA acc, b : acc + At(VersionPos2(n, b)) * 2^b, 0, Range0(18)) ELSE 0
      bits == TLCEval([j \in 1..Len(lay.order) |->
                 LET i == lay.order[j] IN IF MaskCond(fm, (i-1) \div n, (i-1) % n) THEN 1 - M[i] ELSE M[i]])
      ncw == Len(bits) \div 8
      cw == TLCEval([k \in 1..ncw |-> 128*bits[8*k-7] + 64*bits[8*k-6] + 32*bits[8*k-5] + 16*bits[8*k-4] + 8*bits[8*k-3] + 4*bits[8*k-2] + 2*bits[8*k-1] + bits[8*k]])
      nb == NbOf(v, fe)
      ec == EcOf(v, fe)
      nshort == nb - (ncw % nb)
      slen == (ncw \div nb) - ec
      dtotal == ncw - nb*ec
      \* block b: data codewords are read column-wise over the blocks (short blocks first), then EC codewords column-wise
      blocks == TLCEval([b \in 1..nb |->
                  LET dl == IF b <= nshort THEN slen ELSE slen+1
                  IN TLCEval([i \in 1..dl+ec |->
                        IF i <= slen THEN cw[(i-1)*nb + b]
                        ELSE IF i <= dl THEN cw[slen*nb + (b - nshort)]
                        ELSE cw[dtotal + (i-dl-1)*nb + b]])])
      data == TLCEval(FoldLeft(LAMBDA acc, b : acc \o SubSeq(blocks[b], 1, Len(blocks[b]) - ec), <<>>, Range1(nb)))
  IN [f1 |-> f1, f2 |-> f2, fmtOK |-> fmtOK, fe |-> fe, fm |-> fm, v1 |-> v1, v2 |-> v2,
      bits |-> bits, ncw |-> ncw, cw |-> cw, nb |-> nb, ec |-> ec, blocks |-> blocks, data |-> data]

(* ---------------- strict single-segment parser ---------------- *)
AlnumChars == <<48,49,50,51,52,53,54,55,56,57,65,66,67,68,69,70,71,72,73,74,75,76,77,78,79,80,81,82,83,84,85,86,87,88,89,90,32,36,37,42,43,45,46,47,58>>
Pow10(k) == CASE k = 0 -> 1 [] k = 1 -> 10 [] k = 2 -> 100
\* data: sequence of data codewords; returns [ok, mode, bytes]
ParseSegment(data, v) ==
  LET cap == 8 * Len(data)
      bit(i) == Bit(data[((i-1) \div 8) + 1], 7 - ((i-1) % 8))
      val(from, w) == FoldLeft(LAMBDA acc, i : 2*acc + bit(i), 0, [k \in 1..w |-> from + k - 1])
      mi == val(1, 4)
      mode == CASE mi = 1 -> 0 [] mi = 2 -> 1 [] mi = 4 -> 2 [] OTHER -> -1
  IN IF mode < 0 THEN [ok |-> FALSE, mode |-> -1, bytes |-> <<>>]
     ELSE LET cci == Cci(mode, v)
              n == val(5, cci)
              hdr == 4 + cci
              end == hdr + SegBits(mode, n)
          IN IF end > cap THEN [ok |-> FALSE, mode |-> mode, bytes |-> <<>>]
             ELSE LET bytes ==
                        CASE mode = 2 -> [k \in 1..n |-> val(hdr + 8*(k-1) + 1, 8)]
                          [] mode = 0 -> [k \in 1..n |->
                                LET q == (k-1) \div 3 IN
                                IF q < n \div 3 THEN ((val(hdr + 10*q + 1, 10) \div Pow10(2 - ((k-1) % 3))) % 10) + 48
                                ELSE LET rem == n % 3 w == IF rem = 1 THEN 4 ELSE 7
                                     IN ((val(hdr + 10*q + 1, w) \div Pow10(rem - 1 - ((k-1) % 3))) % 10) + 48]
                          [] mode = 1 -> [k \in 1..n |->
                                LET q == (k-1) \div 2 IN
                                IF q < n \div 2 THEN LET x == val(hdr + 11*q + 1, 11) IN
                                     IF x >= 2025 THEN -1 ELSE AlnumChars[(IF (k-1) % 2 = 0 THEN x \div 45 ELSE x % 45) + 1]
                                ELSE LET x == val(hdr + 11*q + 1, 6) IN IF x >= 45 THEN -1 ELSE AlnumChars[x + 1]]
                      groupsOK == CASE mode = 0 -> /\ \A q \in 0..((n \div 3) - 1) : val(hdr + 10*q + 1, 10) < 1000
                                                   /\ (n % 3 = 1 => val(hdr + 10*(n \div 3) + 1, 4) < 10)
                                                   /\ (n % 3 = 2 => val(hdr + 10*(n \div 3) + 1, 7) < 100)
                                    [] OTHER -> \A k \in 1..n : bytes[k] >= 0
                      term == IF cap - end < 4 THEN cap - end ELSE 4
                      termOK == \A i \in (end+1)..(end+term) : bit(i) = 0       \* no second segment follows
                  IN [ok |-> groupsOK /\ termOK, mode |-> mode, bytes |-> bytes]

\* the unmasked symbol with the format strip blanked: what C08 says is independent of the mask
UnmaskedOf(n, M, lay, fm) ==
  TLCEval([i \in 1..n*n |-> IF lay.reg[i] = 4 THEN 0
                             ELSE IF lay.reg[i] = 0 /\ MaskCond(fm, (i-1) \div n, (i-1) % n) THEN 1 - M[i] ELSE M[i]])
=============================================================================
