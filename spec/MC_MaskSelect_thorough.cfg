SPECIFICATION Spec
CONSTANT ScoreRange <- MC_Range4
CHECK_DEADLOCK TRUE
INVARIANT IndInv
INVARIANT Minimal
PROPERTY AllVisited
