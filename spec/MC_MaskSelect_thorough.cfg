SPECIFICATION Spec
CONSTANT ScoreRange <- MC_Range4
CHECK_DEADLOCK FALSE
INVARIANT IndInv
INVARIANT Minimal
PROPERTY AllVisited
