SPECIFICATION Spec
CONSTANT MaxV = 8
CHECK_DEADLOCK FALSE
INVARIANT LemmaInv
INVARIANT BMLemma
