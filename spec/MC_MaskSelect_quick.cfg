SPECIFICATION Spec
CONSTANT ScoreRange <- MC_Range3
CHECK_DEADLOCK FALSE
INVARIANT IndInv
INVARIANT Minimal
PROPERTY AllVisited
