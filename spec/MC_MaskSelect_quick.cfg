SPECIFICATION Spec
CONSTANT ScoreRange <- MC_Range3
CHECK_DEADLOCK TRUE
INVARIANT IndInv
INVARIANT Minimal
PROPERTY AllVisited
