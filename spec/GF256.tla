-------------------------------- MODULE GF256 --------------------------------
(***************************************************************************)
(* GF(2^8) modulo x^8+x^4+x^3+x^2+1 (0x11D), generated from the            *)
(* polynomial -- no table is typed in.  Generator polynomials are built    *)
(* from their roots alpha^0..alpha^(d-1); the Reed-Solomon remainder is an *)
(* LFSR fold; Syndromes by Horner; BMDecode is Berlekamp-Massey + Chien +  *)
(* Forney and is used for the recovery corollary of C02.                   *)
(***************************************************************************)
EXTENDS QRBase

GFExp == TLCEval(FoldLeft(LAMBDA acc, i : Append(acc, LET d == 2 * acc[Len(acc)] IN IF d >= 256 THEN d ^^ 285 ELSE d),
                  <<1>>, Range1(254)))                       \* GFExp[k+1] = alpha^k, k = 0..254
GFLog == LET e == GFExp IN FoldLeft(LAMBDA acc, k : [acc EXCEPT ![e[k+1]] = k], [x \in 1..255 |-> 0], Range0(255))
GFMul(a, b) == IF a = 0 \/ b = 0 THEN 0 ELSE GFExp[((GFLog[a] + GFLog[b]) % 255) + 1]
Alpha(k) == GFExp[(k % 255) + 1]
GFInv(a) == GFExp[((255 - GFLog[a]) % 255) + 1]
GFDiv(a, b) == IF a = 0 THEN 0 ELSE GFMul(a, GFInv(b))

\* g(x) = prod_{i<d} (x - alpha^i); sequence, index 1 = leading coefficient (always 1)
GenPoly0(e, l, d) == FoldLeft(LAMBDA g, i :
                   TLCEval([j \in 1..Len(g)+1 |->
                       (IF j <= Len(g) THEN g[j] ELSE 0) ^^ (IF j >= 2 /\ g[j-1] # 0 THEN e[((l[g[j-1]] + i) % 255) + 1] ELSE 0)]),
                 <<1>>, Range0(d))
GenPolyC == LET e == GFExp l == GFLog IN TLCEval([d \in 1..30 |-> GenPoly0(e, l, d)])
GenPoly(d) == GenPolyC[d]

\* remainder of data(x) * x^d divided by GenPoly(d); data[1] is the highest power
RSRemainder(data, d) ==
  LET g == GenPolyC[d]
  IN FoldLeft(LAMBDA rem, byte :
        LET f == byte ^^ rem[1]
        IN TLCEval([j \in 1..d |-> (IF j < d THEN rem[j+1] ELSE 0) ^^ GFMul(g[j+1], f)]),
      [j \in 1..d |-> 0], data)
\* one LFSR step: remainder of (r(x) * x) mod g where r has degree < d
RSShift(rem, d) ==
  LET g == GenPolyC[d] f == rem[1]
  IN TLCEval([j \in 1..d |-> (IF j < d THEN rem[j+1] ELSE 0) ^^ GFMul(g[j+1], f)])

PolyEvalHi(p, x) == FoldLeft(LAMBDA acc, coef : GFMul(acc, x) ^^ coef, 0, p)      \* p[1] = highest power
Syndrome(block, k) == PolyEvalHi(block, Alpha(k))

(* ---------------- Berlekamp-Massey / Chien / Forney ---------------- *)
XorSum(f, lo, hi) == IF hi < lo THEN 0 ELSE FoldLeft(LAMBDA acc, i : acc ^^ f[i], 0, [k \in 1..(hi-lo+1) |-> lo + k - 1])
\* low-order-first polynomials: index k <-> coefficient of x^(k-1)
PolyEval(p, x) == FoldRight(LAMBDA coef, acc : GFMul(acc, x) ^^ coef, p, 0)
Syndromes(block, d) == TLCEval([k \in 1..d |-> Syndrome(block, k-1)])

BMStep(st, n, S, d) ==
  LET L == st.L
      delta == S[n+1] ^^ XorSum([i \in 1..L |-> GFMul(st.C[i+1], S[n-i+1])], 1, L)
      coef == GFDiv(delta, st.b)
      C2 == TLCEval([k \in 1..d+1 |-> st.C[k] ^^ (IF k - st.m >= 1 THEN GFMul(coef, st.B[k - st.m]) ELSE 0)])
  IN IF delta = 0 THEN [st EXCEPT !.m = st.m + 1]
     ELSE IF 2*L <= n THEN [C |-> C2, B |-> st.C, L |-> n + 1 - L, m |-> 1, b |-> delta]
     ELSE [st EXCEPT !.C = C2, !.m = st.m + 1]

BMLocator(S, d) ==
  LET one == TLCEval([k \in 1..d+1 |-> IF k = 1 THEN 1 ELSE 0])
  IN FoldLeft(LAMBDA st, n : BMStep(st, n, S, d), [C |-> one, B |-> one, L |-> 0, m |-> 1, b |-> 1], Range0(d))

\* returns the corrected block, or <<>> when decoding fails (more than d/2 errors)
BMDecode(block, d) ==
  LET len == Len(block)
      S == Syndromes(block, d)
      st == BMLocator(S, d)
      sigma == st.C
      L == st.L
      errPow == { j \in 0..len-1 : PolyEval(sigma, Alpha(255 - (j % 255))) = 0 }      \* error at power j <=> sigma(alpha^-j) = 0
      omega == TLCEval([k \in 1..d |-> XorSum([i \in 1..k |-> GFMul(S[i], sigma[k - i + 1])], 1, k)])   \* (S*sigma) mod x^d
      dsigma == TLCEval([k \in 1..d |-> IF k % 2 = 1 THEN sigma[k+1] ELSE 0])                               \* formal derivative
      mag(j) == LET xi == Alpha(255 - (j % 255)) IN GFMul(Alpha(j), GFDiv(PolyEval(omega, xi), PolyEval(dsigma, xi)))
  IN IF \A k \in 1..d : S[k] = 0 THEN block
     ELSE IF Cardinality(errPow) # L \/ 2*L > d THEN <<>>
     ELSE [i \in 1..len |-> LET j == len - i IN IF j \in errPow THEN block[i] ^^ mag(j) ELSE block[i]]

(* ---------------- lemmas about the field itself (checked by MC_Lemmas) ---------------- *)
FieldLemmas ==
  /\ Len(GFExp) = 255 /\ { GFExp[k] : k \in 1..255 } = 1..255                       \* alpha generates the group
  /\ \A a \in 1..255 : GFExp[GFLog[a] + 1] = a
  /\ \A d \in 1..30 : Len(GenPoly(d)) = d + 1 /\ GenPoly(d)[1] = 1
  /\ \A d \in {7,10,13,15,16,17,18,20,22,24,26,28,30} : \A i \in 0..d-1 : PolyEvalHi(GenPoly(d), Alpha(i)) = 0
  \* field axioms the decoder relies on: inverses, distributivity and associativity on a sample that contains 0, 1, the
  \* reduction constant and both ends of the range
  /\ \A a \in 1..255 : GFMul(a, GFInv(a)) = 1 /\ GFMul(a, 1) = a /\ GFMul(a, 0) = 0
  /\ \A a, b, c \in {0, 1, 2, 29, 128, 142, 255} : /\ GFMul(a, b ^^ c) = GFMul(a, b) ^^ GFMul(a, c)
                                                   /\ GFMul(a, GFMul(b, c)) = GFMul(GFMul(a, b), c)
                                                   /\ GFMul(a, b) = GFMul(b, a)
  \* anchors typed from ISO 18004: alpha^8 = 29 (the primitive polynomial 0x11D) and the generator polynomials of
  \* degree 7 and 10 of Annex A, given there as exponents of alpha
  /\ GFExp[9] = 29
  /\ GenPoly(7) = [k \in 1..8 |-> Alpha(<<0, 87, 229, 146, 149, 238, 102, 21>>[k])]
  /\ GenPoly(10) = [k \in 1..11 |-> Alpha(<<0, 251, 67, 46, 61, 118, 70, 64, 94, 32, 45>>[k])]
=============================================================================
