-------------------------------- MODULE WasmOps --------------------------------
(***************************************************************************)
(* The WASM facade (wasm.rs): SvgOptions is a register record whose        *)
(* setters consume and return it; qr_svg maps the registers onto the       *)
(* native SvgBuilder (one shape layer, margin, colours, optional image,    *)
(* frame colour/shape, optional size+gap, optional position) and renders   *)
(* a native build of the content with the level/version registers.        *)
(*                                                                         *)
(* A colour string is well-formed iff it is an optional '#' followed by    *)
(* exactly 6 or 8 hex digits; a position array iff it has 2 entries.       *)
(* The property demands that malformed values never trap, not a            *)
(* particular recovery: a malformed value HAVOCS its register (the model   *)
(* accepts any value there) until the next well-formed set.                *)
(* Pure operators shared by Wasm.tla (machine, behaviour export) and       *)
(* Trace.tla (judging recorded executions).                                *)
(***************************************************************************)
EXTENDS Render
IsHexCp(c) == (c >= 48 /\ c <= 57) \/ (c >= 65 /\ c <= 70) \/ (c >= 97 /\ c <= 102)
HexVal(c) == IF c <= 57 THEN c - 48 ELSE IF c <= 70 THEN c - 55 ELSE c - 87
StripHash(s) == IF Len(s) >= 1 /\ s[1] = 35 THEN Tail(s) ELSE s
WellFormedColor(s) == LET t == StripHash(s) IN Len(t) \in {6, 8} /\ \A i \in 1..Len(t) : IsHexCp(t[i])
ParseColor(s) == LET t == StripHash(s)
                     byte(k) == 16 * HexVal(t[2*k-1]) + HexVal(t[2*k])
                 IN <<byte(1), byte(2), byte(3), IF Len(t) = 8 THEN byte(4) ELSE 255>>

W_Init == [shape |-> 0, module |-> <<0,0,0,255>>, margin |-> 4, ecl |-> "none", version |-> -1,
           bg |-> <<255,255,255,255>>, image |-> <<>>, imgBg |-> <<255,255,255,255>>, imgShape |-> 0,
           size |-> <<>>, pos |-> <<>>, havoc |-> {}]
SetColor(w, f, s) == IF WellFormedColor(s) THEN [w EXCEPT ![f] = ParseColor(s), !.havoc = @ \ {f}]
                     ELSE [w EXCEPT !.havoc = @ \cup {f}]
\* one consuming setter (wasm.rs:62-165)
W_Apply(w, call) ==
  CASE call.op = "shape" -> [w EXCEPT !.shape = call.a]
    [] call.op = "margin" -> [w EXCEPT !.margin = call.a]
    [] call.op = "ecl" -> [w EXCEPT !.ecl = call.e]
    [] call.op = "version" -> [w EXCEPT !.version = call.a]
    [] call.op = "module_color" -> SetColor(w, "module", call.s)
    [] call.op = "background_color" -> SetColor(w, "bg", call.s)
    [] call.op = "image_background_color" -> SetColor(w, "imgBg", call.s)
    [] call.op = "image" -> [w EXCEPT !.image = call.s]
    [] call.op = "image_background_shape" -> [w EXCEPT !.imgShape = call.a]
    [] call.op = "image_size" -> [w EXCEPT !.size = <<call.a, call.b>>]                      \* (size, gap), milli-modules
    [] call.op = "image_position" -> IF Len(call.f) = 2 THEN [w EXCEPT !.pos = call.f, !.havoc = @ \ {"pos"}]
                                     ELSE [w EXCEPT !.havoc = @ \cup {"pos"}]
W_After(program) == FoldLeft(W_Apply, W_Init, program)
\* qr_svg (wasm.rs:190-225): the native builder registers the options are mapped onto
NativeOf(w) ==
  LET r0 == [RegInit EXCEPT !.layers = <<[shape |-> w.shape, color |-> NoCol]>>, !.margin = w.margin,
                            !.bg = RgbaCol(w.bg), !.dot = RgbaCol(w.module), !.imgBg = RgbaCol(w.imgBg), !.imgShape = w.imgShape]
      r1 == IF w.image # <<>> THEN [r0 EXCEPT !.hasImage = TRUE, !.image = w.image] ELSE r0
      r2 == IF w.size # <<>> THEN [r1 EXCEPT !.size = w.size[1], !.gap = w.size[2]] ELSE r1
  IN IF w.pos # <<>> THEN [r2 EXCEPT !.pos = w.pos] ELSE r2
=============================================================================
