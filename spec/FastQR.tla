-------------------------------- MODULE FastQR --------------------------------
(***************************************************************************)
(* THE STATE MACHINE of the crate's build path, shaped like the code: one  *)
(* action per setter and per pipeline stage (file:line of the pinned       *)
(* tree in the comments).                                                  *)
(*                                                                         *)
(*   regs : [Builders -> registers]   input + four option registers,       *)
(*                                    "none" / -1 = unset                  *)
(*   job  : [Threads -> job record]   the build a thread is executing      *)
(*   done : [Threads -> Seq(summary)] history of completed builds          *)
(*                                    (observation only; hidden by VIEW)   *)
(*                                                                         *)
(* No action of thread t reads job[u] or done[u] for u # t, and a build    *)
(* reads the registers exactly once (BuildStart snapshots them): that is   *)
(* the design-level content of C14.  Setters need &mut self in the code,   *)
(* so they cannot overlap a build of the same builder.                     *)
(***************************************************************************)
EXTENDS QRProps

CONSTANTS Builders, Threads,
          Inputs,            \* set of byte sequences a builder can be created with
          LevelOpts,         \* subset of {"none","L","M","Q","H"}
          ModeOpts,          \* subset of -1..2
          VersionOpts,       \* subset of {-1} \cup 1..40
          MaskOpts,          \* subset of -1..7
          MaxSets            \* bound on setter calls per builder (state constraint of the MC configs)

VARIABLES regs, nsets, job, done
vars == <<regs, nsets, job, done>>
view == <<regs, nsets, job>>

Idle == [stage |-> "idle"]
RegSpace == [input : Inputs, ecl : LevelOpts, mode : ModeOpts, version : VersionOpts, mask : MaskOpts]

Init == /\ regs \in [Builders -> RegSpace]
        /\ nsets = [b \in Builders |-> 0]
        /\ job = [t \in Threads |-> Idle]
        /\ done = [t \in Threads |-> <<>>]

Busy(b) == \E t \in Threads : job[t].stage # "idle" /\ job[t].bid = b

(* ---------------- setters (qr.rs:211-243): last value wins ---------------- *)
SetReg(b, f, x) == /\ ~Busy(b) /\ nsets[b] < MaxSets
                   /\ regs' = [regs EXCEPT ![b][f] = x]
                   /\ nsets' = [nsets EXCEPT ![b] = @ + 1]
                   /\ UNCHANGED <<job, done>>
SetEcl(b, e)     == e # "none" /\ SetReg(b, "ecl", e)
SetMode(b, m)    == m >= 0 /\ SetReg(b, "mode", m)
SetVersion(b, v) == v >= 1 /\ SetReg(b, "version", v)
SetMask(b, m)    == m >= 0 /\ SetReg(b, "mask", m)

(* ---------------- stage operators: job record -> job record ---------------- *)
\* qr.rs:250 build(): snapshot of the registers; the builder is not modified
S_Start(bid, r) == [stage |-> "resolve", bid |-> bid, b |-> r]

\* qr.rs:154-155, encode.rs:44-64: forced mode or the most compact one; forced level or Q
S_Resolve(j) == [stage |-> "select", bid |-> j.bid, b |-> j.b, mode |-> WantMode(j.b), e |-> WantLevel(j.b)]

\* qr.rs:157-165, version.rs:96: smallest sufficient version; the two documented errors
S_Select(j) ==
  LET minv == MinVersion(j.mode, j.e, Len(j.b.input)) IN
  IF ~ModeOK(j.b.input, j.mode) THEN [stage |-> "done", bid |-> j.bid, b |-> j.b, out |-> "Unspecified"]    \* BuildUnspecified: named deviation, no claim
  ELSE IF minv = 0 THEN [stage |-> "done", bid |-> j.bid, b |-> j.b, out |-> "EncodedData"]
  ELSE IF j.b.version >= 1 /\ j.b.version < minv THEN [stage |-> "done", bid |-> j.bid, b |-> j.b, out |-> "SpecifiedVersion"]
  ELSE [stage |-> "segment", bid |-> j.bid, b |-> j.b, mode |-> j.mode, e |-> j.e, v |-> IF j.b.version >= 1 THEN j.b.version ELSE minv]

\* encode.rs:23-31 + encode_numeric/alphanumeric/byte: mode indicator, character count, payload groups
S_Segment(j) == LET L0 == 4 + Cci(j.mode, j.v) + SegBits(j.mode, Len(j.b.input)) IN
                [j EXCEPT !.stage = "terminate"] @@ [bits |-> [i \in 1..L0 |-> DataBit(j.b.input, j.mode, j.v, j.e, i)]]
\* encode.rs:139-144 add_terminator: min(4, room) zero bits
S_Terminate(j) == LET room == 8 * DataCW(j.v, j.e) - Len(j.bits) IN
                  [j EXCEPT !.stage = "padbyte", !.bits = j.bits \o [i \in 1..Min2(4, room) |-> 0]]
\* encode.rs:147-150 pad_to_8
S_PadByte(j) == [j EXCEPT !.stage = "padcw", !.bits = j.bits \o [i \in 1..((8 - (Len(j.bits) % 8)) % 8) |-> 0]]
\* compact.rs:213-223 fill: 0xEC, 0x11 alternating up to the data capacity; then bits -> codewords
S_PadCodewords(j) ==
  LET have == Len(j.bits) \div 8
      cwOf(k) == IF k <= have THEN FoldLeft(LAMBDA acc, i : 2*acc + j.bits[8*(k-1) + i], 0, Range1(8))
                 ELSE IF (k - have) % 2 = 1 THEN 236 ELSE 17
  IN [stage |-> "ec", bid |-> j.bid, b |-> j.b, mode |-> j.mode, e |-> j.e, v |-> j.v,
      data |-> [k \in 1..DataCW(j.v, j.e) |-> cwOf(k)]]

\* polynomials.rs:123-141: per-block remainder
S_ComputeEC(j) ==
  LET nb == NbOf(j.v, j.e) ec == EcOf(j.v, j.e) lens == BlockLens(j.v, j.e)
      starts == [bk \in 1..nb |-> SumSeq(SubSeq(lens, 1, bk-1))]
      dblk == [bk \in 1..nb |-> SubSeq(j.data, starts[bk] + 1, starts[bk] + lens[bk])]
  IN [j EXCEPT !.stage = "interleave"] @@ [dblk |-> dblk, eblk |-> [bk \in 1..nb |-> RSRemainder(dblk[bk], ec)]]
\* polynomials.rs:143-161: data column-wise over the blocks, then EC column-wise; placement.rs:131 adds the remainder bits
S_Interleave(j) ==
  LET nb == NbOf(j.v, j.e) ec == EcOf(j.v, j.e) lens == BlockLens(j.v, j.e)
      dcols == FoldLeft(LAMBDA acc, i : acc \o SelectSeq([bk \in 1..nb |-> IF i <= lens[bk] THEN j.dblk[bk][i] ELSE -1], LAMBDA x : x >= 0), <<>>, Range1(lens[nb]))
      ecols == FoldLeft(LAMBDA acc, i : acc \o [bk \in 1..nb |-> j.eblk[bk][i]], <<>>, Range1(ec))
      stream == dcols \o ecols
  IN [stage |-> "blank", bid |-> j.bid, b |-> j.b, mode |-> j.mode, e |-> j.e, v |-> j.v,
      sbits |-> [k \in 1..RawModules(j.v) |-> IF k <= 8*Len(stream) THEN Bit(stream[((k-1) \div 8) + 1], 7 - ((k-1) % 8)) ELSE 0]]

\* default.rs:26-72: function patterns, version information, reserved (light) format strip
BlankOf(lay) ==
  LET n == lay.n v == lay.v
      vbit(r, c) == IF r <= 5 THEN Bit(BCH18(v), r*3 + (c - (n-11))) ELSE Bit(BCH18(v), c*3 + (r - (n-11)))
  IN TLCEval([i \in 1..n*n |-> LET r == (i-1) \div n c == (i-1) % n code == lay.reg[i] IN
        IF code = 0 \/ code = 4 THEN 0
        ELSE IF code = 5 THEN vbit(r, c)
        ELSE IF FnDark(v, n, lay.band, code, r, c) THEN 1 ELSE 0])
S_DrawBlank(j) == LET lay == Layout(j.v) IN [j EXCEPT !.stage = "place"] @@ [lay |-> lay, M |-> BlankOf(lay)]
\* placement.rs:36-71: zig-zag placement of the stream over the data modules
S_PlaceData(j) ==
  LET n == j.lay.n
      inv == FoldLeft(LAMBDA acc, k : [acc EXCEPT ![j.lay.order[k]] = k], [i \in 1..n*n |-> 0], Range1(Len(j.lay.order)))
  IN [stage |-> "score", bid |-> j.bid, b |-> j.b, mode |-> j.mode, e |-> j.e, v |-> j.v, lay |-> j.lay,
      M |-> TLCEval([i \in 1..n*n |-> IF j.lay.reg[i] = 0 THEN j.sbits[inv[i]] ELSE j.M[i]]),
      next |-> 0, best |-> 0, bestScore |-> -1, cands |-> <<>>]
\* placement.rs:99-109: candidate = mask `next` applied to the placed symbol, scored; running minimum
S_ScoreCandidate(j) ==
  LET p == Penalty(MaskedOf(j.lay, j.M, j.next), DataIndicator(j.lay), j.lay.n)
      better == j.bestScore < 0 \/ p < j.bestScore
  IN [j EXCEPT !.next = j.next + 1, !.cands = Append(j.cands, p),
               !.best = IF better THEN j.next ELSE j.best,
               !.bestScore = IF better THEN p ELSE j.bestScore,
               !.stage = IF j.next = 7 THEN "choose" ELSE "score"]
\* placement.rs:111-112: a forced mask overrides the selection
S_ChooseMask(j) == [stage |-> "format", bid |-> j.bid, b |-> j.b, mode |-> j.mode, e |-> j.e, v |-> j.v, lay |-> j.lay, M |-> j.M,
                    cands |-> j.cands, mask |-> IF j.b.mask >= 0 THEN j.b.mask ELSE j.best]
\* placement.rs:114, default.rs:178-228: both copies of the format word
WithFormat(lay, M, e, m) ==
  LET n == lay.n w == FormatWord(e, m)
      p1 == FoldLeft(LAMBDA acc, bt : [acc EXCEPT ![Idx(n, FormatPos1(bt)[1], FormatPos1(bt)[2])] = Bit(w, bt)], M, Range0(15))
  IN FoldLeft(LAMBDA acc, bt : [acc EXCEPT ![Idx(n, FormatPos2(n, bt)[1], FormatPos2(n, bt)[2])] = Bit(w, bt)], p1, Range0(15))
S_WriteFormat(j) == [j EXCEPT !.stage = "mask", !.M = WithFormat(j.lay, j.M, j.e, j.mask)]
\* placement.rs:115: mask the encoding region
S_ApplyMask(j) == [j EXCEPT !.stage = "done", !.M = MaskedOf(j.lay, j.M, j.mask)] @@ [out |-> "Ok"]

(* ---------------- actions ---------------- *)
BuildStart(t, b) == /\ job[t].stage = "idle"
                    /\ job' = [job EXCEPT ![t] = S_Start(b, regs[b])]
                    /\ UNCHANGED <<regs, nsets, done>>
Stage(t, name, op(_)) == /\ job[t].stage = name
                         /\ job' = [job EXCEPT ![t] = op(job[t])]
                         /\ UNCHANGED <<regs, nsets, done>>
Summary(j) == IF j.out = "Ok" THEN [b |-> j.b, out |-> "Ok", v |-> j.v, e |-> j.e, mode |-> j.mode, mask |-> j.mask, M |-> j.M]
              ELSE [b |-> j.b, out |-> j.out]
Return(t) == /\ job[t].stage = "done"
             /\ done' = [done EXCEPT ![t] = Append(@, Summary(job[t]))]
             /\ job' = [job EXCEPT ![t] = Idle]
             /\ UNCHANGED <<regs, nsets>>

Next == \/ \E b \in Builders :
            \/ \E e \in LevelOpts : SetEcl(b, e)
            \/ \E m \in ModeOpts : SetMode(b, m)
            \/ \E v \in VersionOpts : SetVersion(b, v)
            \/ \E m \in MaskOpts : SetMask(b, m)
        \/ \E t \in Threads :
            \/ \E b \in Builders : BuildStart(t, b)
            \/ Stage(t, "resolve", S_Resolve) \/ Stage(t, "select", S_Select)
            \/ Stage(t, "segment", S_Segment) \/ Stage(t, "terminate", S_Terminate)
            \/ Stage(t, "padbyte", S_PadByte) \/ Stage(t, "padcw", S_PadCodewords)
            \/ Stage(t, "ec", S_ComputeEC) \/ Stage(t, "interleave", S_Interleave)
            \/ Stage(t, "blank", S_DrawBlank) \/ Stage(t, "place", S_PlaceData)
            \/ Stage(t, "score", S_ScoreCandidate) \/ Stage(t, "choose", S_ChooseMask)
            \/ Stage(t, "format", S_WriteFormat) \/ Stage(t, "mask", S_ApplyMask)
            \/ Return(t)
Spec == Init /\ [][Next]_vars

\* the whole pipeline as one operator (used by the trace specification for end-to-end events)
RunStages(j) ==
  LET RECURSIVE go(_)
      go(x) == CASE x.stage = "resolve" -> go(S_Resolve(x)) [] x.stage = "select" -> go(S_Select(x))
                 [] x.stage = "segment" -> go(S_Segment(x)) [] x.stage = "terminate" -> go(S_Terminate(x))
                 [] x.stage = "padbyte" -> go(S_PadByte(x)) [] x.stage = "padcw" -> go(S_PadCodewords(x))
                 [] x.stage = "ec" -> go(S_ComputeEC(x)) [] x.stage = "interleave" -> go(S_Interleave(x))
                 [] x.stage = "blank" -> go(S_DrawBlank(x)) [] x.stage = "place" -> go(S_PlaceData(x))
                 [] x.stage = "score" -> go(S_ScoreCandidate(x)) [] x.stage = "choose" -> go(S_ChooseMask(x))
                 [] x.stage = "format" -> go(S_WriteFormat(x)) [] x.stage = "mask" -> go(S_ApplyMask(x))
                 [] OTHER -> x
  IN go(j)
\* the symbol the machine produces for registers r when the mask choice is given (used for full-matrix conformance)
SymbolFor(r, mask) == RunStages([S_Start(0, [r EXCEPT !.mask = mask]) EXCEPT !.stage = "resolve"])

(* ---------------- properties of the design (invariants of the MC configs) ---------------- *)
ObsOf(j) == [n |-> j.lay.n, M |-> j.M, T |-> j.lay.reg, ecl |-> j.e, mask |-> j.mask, version |-> j.v, mode |-> j.mode, tail_clean |-> TRUE]
DecOf(j) == Decode(j.lay.n, j.M, j.lay, j.e, j.mask)
IsOk(t) == job[t].stage = "done" /\ job[t].out = "Ok"
AtDone(P(_)) == \A t \in Threads : IsOk(t) => P(job[t])

OutcomeTotal == \A t \in Threads : job[t].stage = "done" =>
                   /\ job[t].out \in {"Ok", "EncodedData", "SpecifiedVersion", "Unspecified"}
                   /\ (job[t].out = "Unspecified") = ~InDomain(job[t].b)
                   /\ (InDomain(job[t].b) => job[t].out = ExpectedOutcome(job[t].b))
RoundTripInv == AtDone(LAMBDA j : RoundTrip(j.b, ObsOf(j), DecOf(j), j.lay))
BlocksValidInv == AtDone(LAMBDA j : LET d == DecOf(j) IN CodewordCount(d, j.lay) /\ RemainderBitsZero(d) /\ BlockShape(d, j.lay) /\ SyndromesZero(d))
ECIsRemainderInv == AtDone(LAMBDA j : ECIsRemainder(DecOf(j)))
FormatVersionTruthInv == AtDone(LAMBDA j : LET d == DecOf(j) o == ObsOf(j) IN
                             /\ FormatCopiesExact(d) /\ VersionInfoExact(d, j.lay) /\ ReportedFieldsTruth(o, d, j.lay)
                             /\ ReportedModeTruth(o, d, j.lay) /\ ForcedOptionsHonoured(j.b, d, j.lay))
MinimalVersionInv == AtDone(LAMBDA j : MinimalVersion(j.b, ObsOf(j), DecOf(j), j.lay))
DataCodewordsISOInv == AtDone(LAMBDA j : DataCodewordsISO(j.b, ObsOf(j), DecOf(j), j.lay))
AutoModeCompactInv == AtDone(LAMBDA j : AutoModeCompact(j.b, ObsOf(j)))
\* function patterns and labels are exact from DrawBlank on and no later stage touches them
HasMatrix(j) == j.stage \in {"place", "score", "choose", "format", "mask", "done"} /\ (j.stage = "done" => j.out = "Ok")
FunctionPatternsInv == \A t \in Threads : HasMatrix(job[t]) =>
                          FunctionPatternsExact([n |-> job[t].lay.n, M |-> job[t].M], job[t].lay)
\* C10 on the design, termination without liveness checking: every stage is one of the known ones (so it has an enabled
\* action), and every step of a busy thread strictly increases a rank bounded by 23: a build returns after at most 23 steps
StageNames == <<"resolve", "select", "segment", "terminate", "padbyte", "padcw", "ec", "interleave", "blank", "place", "score", "choose", "format", "mask", "done">>
StageKnown == \A t \in Threads : job[t].stage = "idle" \/ \E k \in 1..Len(StageNames) : StageNames[k] = job[t].stage
Rank(j) == IF j.stage = "idle" THEN 0
           ELSE LET k == CHOOSE i \in 1..Len(StageNames) : StageNames[i] = j.stage IN
                IF k < 11 THEN k ELSE IF k = 11 THEN 11 + j.next ELSE k + 7
Progress == [][\A t \in Threads : job'[t] # job[t] => (job[t].stage = "idle" \/ job'[t].stage = "idle" \/ Rank(job'[t]) > Rank(job[t]))]_vars
\* the staged encoder (segment, terminator, byte padding, pad codewords) equals the closed-form stream
StagedEqualsClosedForm == \A t \in Threads : job[t].stage = "ec" =>
                             job[t].data = DataCodewordsOf(job[t].b.input, job[t].mode, job[t].v, job[t].e)
\* C11 on the design: the chosen mask minimises the documented penalty; a forced mask overrides
MaskMinimalInv == \A t \in Threads : job[t].stage \in {"format", "mask"} =>
                     IF job[t].b.mask >= 0 THEN job[t].mask = job[t].b.mask
                     ELSE Len(job[t].cands) = 8 /\ job[t].cands[job[t].mask + 1] = MinOfSeq(job[t].cands)
\* C08 on the design: unmasking the final symbol gives the placed symbol whatever the mask
MaskExactInv == AtDone(LAMBDA j : LET d == DecOf(j) IN
                   UnmaskedOf(j.lay.n, j.M, j.lay, d.fm) = UnmaskedOf(j.lay.n, SymbolFor(j.b, (d.fm + 1) % 8).M, j.lay, (d.fm + 1) % 8))
\* C14 on the design: equal registers, equal results -- over everything completed so far by any thread
AllDone == UNION { { done[t][k] : k \in 1..Len(done[t]) } : t \in Threads }
Deterministic == \A x, y \in AllDone : x.b = y.b => x = y
BuildReadOnly == [][\A t \in Threads : (job[t].stage # "idle" /\ job'[t] # job[t]) => UNCHANGED regs]_vars
=============================================================================
