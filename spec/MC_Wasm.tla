-------------------------------- MODULE MC_Wasm --------------------------------
EXTENDS Wasm
S(str) == str   \* code points are typed in below (TLC cannot convert strings to code points)
C(op, s) == [op |-> op, a |-> 0, b |-> 0, e |-> "none", s |-> s, f |-> <<>>]
A(op, a) == [op |-> op, a |-> a, b |-> 0, e |-> "none", s |-> <<>>, f |-> <<>>]
\* "#123456" "abcdef80" | "" "#" "red" "#12345" "#1234567" "#zzzzzz" "#12345<e-acute>" "123456789" "#+1+2+3"
OkCol1 == <<35,49,50,51,52,53,54>>
OkCol2 == <<97,98,99,100,101,102,56,48>>
BadCols == << <<>>, <<35>>, <<114,101,100>>, <<35,49,50,51,52,53>>, <<35,49,50,51,52,53,54,55>>, <<35,122,122,122,122,122,122>>,
              <<35,49,50,51,52,53,233>>, <<49,50,51,52,53,54,55,56,57>>, <<35,43,49,43,50,43,51>> >>
Logo == <<108,111,103,111,46,112,110,103>>
MC_Alphabet ==
  << C("module_color", OkCol1), C("module_color", OkCol2), C("background_color", OkCol1), C("image_background_color", OkCol2),
     C("background_color", <<35,49,49,50,50,51,51,52,52>>), C("module_color", <<65,66,67,68,69,70>>) >>      \* "#11223344", "ABCDEF"
  \o [k \in 1..Len(BadCols) |-> C("module_color", BadCols[k])]
  \o << C("background_color", BadCols[3]), C("background_color", BadCols[6]), C("image_background_color", BadCols[1]), C("image_background_color", BadCols[7]) >>
  \o << C("image", Logo), C("image", <<>>),
        [op |-> "image_size", a |-> 5000, b |-> 1000, e |-> "none", s |-> <<>>, f |-> <<>>],
        [op |-> "image_size", a |-> 10500, b |-> 1250, e |-> "none", s |-> <<>>, f |-> <<>>],
        [op |-> "image_position", a |-> 0, b |-> 0, e |-> "none", s |-> <<>>, f |-> <<12000, 13000>>],
        [op |-> "image_position", a |-> 0, b |-> 0, e |-> "none", s |-> <<>>, f |-> <<>>],
        [op |-> "image_position", a |-> 0, b |-> 0, e |-> "none", s |-> <<>>, f |-> <<3000>>],
        [op |-> "image_position", a |-> 0, b |-> 0, e |-> "none", s |-> <<>>, f |-> <<1000, 2000, 3000>>],
        A("shape", 1), A("shape", 5), A("margin", 0), A("margin", 9), A("image_background_shape", 2),
        [op |-> "ecl", a |-> 0, b |-> 0, e |-> "H", s |-> <<>>, f |-> <<>>],
        [op |-> "ecl", a |-> 0, b |-> 0, e |-> "L", s |-> <<>>, f |-> <<>>],
        A("version", 1), A("version", 6) >>
================================================================================
