SPECIFICATION Spec
CONSTANTS
  N = 3
  MaxCalls = 3
  Alphabet <- MC_Alphabet
CHECK_DEADLOCK FALSE
INVARIANT TextExact
INVARIANT SvgExact
INVARIANT RasterExact
PROPERTY RenderReadOnly
