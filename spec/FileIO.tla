-------------------------------- MODULE FileIO --------------------------------
(* The machine of FileOps explored by TLC: every fault class x every strike offset; FileAllOrError as an invariant;
   every complete behaviour exported for replay against the real to_file (GEN). *)
EXTENDS FileRun, TLC, Json
VARIABLES fs, fault, off, hist,
          pre      \* what is at the path before the call: nothing, a shorter / longer / equally long file (File::create truncates, nothing of it may survive)
vars == <<fs, fault, off, hist, pre>>
PreStates == {"absent", "shorter", "longer", "samelen", "samehead"}     \* samelen: other bytes of the same length; samehead: the same length and the same leading bytes, a different tail
Init == /\ fs = F_Init /\ hist = <<>>
        /\ fault \in Classes
        /\ off \in 0..L
        /\ (fault \notin WriteFaults => off = 0)          \* the offset only matters for write-time classes
        /\ (fault = "ENOSPC" => off = 0)                  \* a full device refuses the first byte
        /\ pre \in PreStates
        /\ (fault \notin {"none", "EFBIG"} => pre = "absent")   \* only a regular target can hold an earlier file
Next == /\ fs.phase # "done"
        /\ fs' = F_Step(fs, fault, off)
        /\ hist' = Append(hist, fs'.phase)
        /\ UNCHANGED <<fault, off, pre>>
Spec == Init /\ [][Next]_vars
FileAllOrError == fs.phase = "done" =>
                    /\ (fs.ret = "Ok" => fs.written = L)              \* Ok only with the complete file
                    /\ (Struck(fault, off) => fs.ret = "Err")          \* a fault that struck is reported
                    /\ (~Struck(fault, off) => fs.ret = "Ok")          \* and nothing else is
                    /\ fs = F_Run(fault, off)
Terminates == <>(fs.phase = "done")
Replay == fs.phase = "done" => PrintT(<<"REPLAY", ToJson([fault |-> fault, off |-> off, pre |-> pre, hist |-> hist, ret |-> fs.ret, file |-> FileClass(fs), k |-> fs.written])>>)
=============================================================================
