#![no_main]
//! input = two option bytes, then the content.  Decoded the same way by harness/src/scen_build.rs::discovered.
use fast_qr::{Mask, Mode, QRBuilder, Version, ECL};
use libfuzzer_sys::fuzz_target;
fuzz_target!(|data: &[u8]| {
    // libfuzzer-sys aborts the process from its panic hook; a panic of the crate is data here (the input is kept and judged later)
    static QUIET: std::sync::Once = std::sync::Once::new();
    QUIET.call_once(|| std::panic::set_hook(Box::new(|_| {})));
    if data.len() < 2 { return; }
    let (o1, o2) = (data[0], data[1]);
    let mut b = QRBuilder::new(data[2..].to_vec());
    match o1 % 5 { 1 => { b.ecl(ECL::L); } 2 => { b.ecl(ECL::M); } 3 => { b.ecl(ECL::Q); } 4 => { b.ecl(ECL::H); } _ => {} }
    match (o1 / 5) % 4 { 1 => { b.mode(Mode::Numeric); } 2 => { b.mode(Mode::Alphanumeric); } 3 => { b.mode(Mode::Byte); } _ => {} }
    if o2 % 4 == 1 { b.version([Version::V01, Version::V02, Version::V05, Version::V09][(o2 as usize / 4) % 4]); }
    if o2 % 4 == 2 { b.mask([Mask::Checkerboard, Mask::HorizontalLines, Mask::VerticalLines, Mask::DiagonalLines, Mask::LargeCheckerboard, Mask::Fields, Mask::Diamonds, Mask::Meadow][(o2 as usize / 4) % 8]); }
    let _ = std::panic::catch_unwind(std::panic::AssertUnwindSafe(|| { let _ = b.build(); }));
});
