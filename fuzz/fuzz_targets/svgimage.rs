#![no_main]
//! input = an embedded-image reference (UTF-8); rendered on one fixed small symbol.
use fast_qr::convert::{svg::SvgBuilder, Builder};
use fast_qr::QRBuilder;
use libfuzzer_sys::fuzz_target;
fuzz_target!(|data: &[u8]| {
    // libfuzzer-sys aborts the process from its panic hook; a panic of the crate is data here (the input is kept and judged later)
    static QUIET: std::sync::Once = std::sync::Once::new();
    QUIET.call_once(|| std::panic::set_hook(Box::new(|_| {})));
    let Ok(s) = std::str::from_utf8(data) else { return };
    // characters no XML 1.0 document can carry are outside the domain of the property
    if !s.chars().all(|c| matches!(c as u32, 0x20..=0xD7FF | 0xE000..=0xFFFD | 0x10000..=0x10FFFF)) { return; }
    thread_local! { static QR: fast_qr::QRCode = QRBuilder::new("FQ").build().unwrap(); }
    QR.with(|qr| { let _ = std::panic::catch_unwind(std::panic::AssertUnwindSafe(|| { let mut b = SvgBuilder::default(); b.image(s.to_string()); let _ = b.to_str(qr); })); });
});
