//! Renderer scenarios: terminal text, SVG (document structure, cells, frame), raster/PNG.
//! Sensors project concrete output (XML, path data, pixels) to integers; they never judge.
use crate::common::*;
use crate::gen::*;
#[cfg(feature = "image")]
use fast_qr::convert::image::ImageBuilder;
use fast_qr::convert::svg::SvgBuilder;
use fast_qr::convert::{Builder, ImageBackgroundShape, Shape};
use fast_qr::QRCode;
use kurbo::{BezPath, PathEl, Shape as KShape};
use rand::Rng;
use serde_json::{json, Value};
pub use crate::scen_text::*;

pub const SHAPES: [Shape; 6] = [Shape::Square, Shape::Circle, Shape::RoundedSquare, Shape::Vertical, Shape::Horizontal, Shape::Diamond];
pub const FRAME_SHAPES: [ImageBackgroundShape; 3] = [ImageBackgroundShape::Square, ImageBackgroundShape::Circle, ImageBackgroundShape::RoundedSquare];

fn milli(s: &str) -> i64 {
    let s = s.trim().trim_end_matches("px");
    match s.parse::<f64>() { Ok(x) if x.is_finite() && x.abs() < 2.0e6 => (x * 1000.0).round() as i64, _ => -999_999_999 }
}
fn norm_color(s: &str) -> String { if s.starts_with('#') { s.to_ascii_lowercase() } else { s.to_string() } }
fn ascii(s: &str) -> String { s.chars().filter(|c| c.is_ascii() && *c != '"' && *c != '\\' && !c.is_ascii_control()).take(120).collect() }

// ------------------------------------------------------------------ SVG (C12, C18)
/// One call of the builder API, as data
#[derive(Clone, Debug)]
pub enum Call {
    Shape(usize), ShapeColor(usize, Vec<u8>), Margin(usize), ModuleColor(Vec<u8>), BackgroundColor(Vec<u8>),
    ModuleColorStr(String), BackgroundColorStr(String),
    Image(String), ImageBackgroundColor(Vec<u8>), ImageBackgroundShape(usize), ImageSize(f64), ImageGap(f64), ImagePosition(f64, f64),
    FitWidth(u32), FitHeight(u32),
}
fn fmilli(x: f64) -> i64 { (x * 1000.0).round() as i64 }
impl Call {
    pub fn json(&self) -> Value {
        match self {
            Call::Shape(s) => json!({"op": "shape", "a": s, "c": [], "s": []}),
            Call::ShapeColor(s, c) => json!({"op": "shape_color", "a": s, "c": c, "s": []}),
            Call::Margin(m) => json!({"op": "margin", "a": m, "c": [], "s": []}),
            Call::ModuleColor(c) => json!({"op": "module_color", "a": 0, "c": c, "s": []}),
            Call::BackgroundColor(c) => json!({"op": "background_color", "a": 0, "c": c, "s": []}),
            Call::ModuleColorStr(s) => json!({"op": "module_color_str", "a": 0, "c": [], "s": cps(s)}),
            Call::BackgroundColorStr(s) => json!({"op": "background_color_str", "a": 0, "c": [], "s": cps(s)}),
            Call::Image(s) => json!({"op": "image", "a": 0, "c": [], "s": cps(s)}),
            Call::ImageBackgroundColor(c) => json!({"op": "image_background_color", "a": 0, "c": c, "s": []}),
            Call::ImageBackgroundShape(k) => json!({"op": "image_background_shape", "a": k, "c": [], "s": []}),
            Call::ImageSize(x) => json!({"op": "image_size", "a": fmilli(*x), "c": [], "s": []}),
            Call::ImageGap(x) => json!({"op": "image_gap", "a": fmilli(*x), "c": [], "s": []}),
            Call::ImagePosition(x, y) => json!({"op": "image_position", "a": fmilli(*x), "b": fmilli(*y), "c": [], "s": []}),
            Call::FitWidth(w) => json!({"op": "fit_width", "a": w, "c": [], "s": []}),
            Call::FitHeight(h) => json!({"op": "fit_height", "a": h, "c": [], "s": []}),
        }
    }
    pub fn apply<B: Builder>(&self, b: &mut B) {
        match self {
            Call::Shape(s) => { b.shape(SHAPES[*s]); }
            Call::ShapeColor(s, c) => { b.shape_color(SHAPES[*s], c.clone()); }
            Call::Margin(m) => { b.margin(*m); }
            Call::ModuleColor(c) => { b.module_color(c.clone()); }
            Call::BackgroundColor(c) => { b.background_color(c.clone()); }
            Call::ModuleColorStr(s) => { b.module_color(s.as_str()); }
            Call::BackgroundColorStr(s) => { b.background_color(s.as_str()); }
            Call::Image(s) => { b.image(s.clone()); }
            Call::ImageBackgroundColor(c) => { b.image_background_color(c.clone()); }
            Call::ImageBackgroundShape(k) => { b.image_background_shape(FRAME_SHAPES[*k]); }
            Call::ImageSize(x) => { b.image_size(*x); }
            Call::ImageGap(x) => { b.image_gap(*x); }
            Call::ImagePosition(x, y) => { b.image_position(*x, *y); }
            Call::FitWidth(_) | Call::FitHeight(_) => {}
        }
    }
}
impl Call {
    /// an abstract call as exported by TLC (same record shape as `json`)
    pub fn from_json(j: &Value) -> Option<Call> {
        let a = j["a"].as_i64().unwrap_or(0);
        let c: Vec<u8> = j["c"].as_array().map(|v| v.iter().filter_map(|x| x.as_u64()).map(|x| x as u8).collect()).unwrap_or_default();
        let st: String = j["s"].as_array().map(|v| v.iter().filter_map(|x| x.as_u64()).filter_map(|x| char::from_u32(x as u32)).collect()).unwrap_or_default();
        Some(match j["op"].as_str()? {
            "shape" => Call::Shape(a as usize), "shape_color" => Call::ShapeColor(a as usize, c), "margin" => Call::Margin(a as usize),
            "module_color" => Call::ModuleColor(c), "background_color" => Call::BackgroundColor(c), "image" => Call::Image(st),
            "image_background_color" => Call::ImageBackgroundColor(c), "image_background_shape" => Call::ImageBackgroundShape(a as usize),
            "image_size" => Call::ImageSize(a as f64 / 1000.0), "image_gap" => Call::ImageGap(a as f64 / 1000.0),
            "image_position" => Call::ImagePosition(a as f64 / 1000.0, j["b"].as_f64().unwrap_or(0.0) / 1000.0),
            _ => return None,
        })
    }
}
pub fn program_json(p: &[Call]) -> Value { Value::Array(p.iter().map(|c| c.json()).collect()) }
pub fn svg_builder(p: &[Call]) -> SvgBuilder { let mut b = SvgBuilder::default(); for c in p { c.apply(&mut b); } b }

/// Projection of an SVG document: structure, colours, per layer the cell of every sub-path, frame and image boxes.
pub fn sense_svg(svg: &str) -> Value {
    let doc = match roxmltree::Document::parse(svg) {
        Ok(d) => d,
        Err(e) => return json!({"wellformed": 0, "why": ascii(&e.to_string()), "root": "", "viewbox": [], "kinds": [], "rects": [], "layers": [], "images": []}),
    };
    let root = doc.root_element();
    let vb: Vec<i64> = root.attribute("viewBox").unwrap_or("").split_whitespace().map(milli).collect();
    let (mut rects, mut layers, mut images, mut kinds) = (vec![], vec![], vec![], vec![]);
    for n in root.children() {
        if n.is_text() { if n.text().map(|t| !t.trim().is_empty()).unwrap_or(false) { kinds.push("text".to_string()); } continue; }
        if !n.is_element() { continue; }
        let name = n.tag_name().name();
        kinds.push(name.to_string());
        match name {
            "rect" => rects.push(json!({
                "x": n.attribute("x").map(milli).unwrap_or(0), "y": n.attribute("y").map(milli).unwrap_or(0),
                "w": n.attribute("width").map(milli).unwrap_or(-1), "h": n.attribute("height").map(milli).unwrap_or(-1),
                "fill": cps(&norm_color(n.attribute("fill").unwrap_or(""))), "rx": n.attribute("rx").map(milli).unwrap_or(0)})),
            "path" => {
                let d = n.attribute("d").unwrap_or("");
                let (mut cells, mut strays, mut parsed) = (vec![], 0usize, 1);
                match BezPath::from_svg(d) {
                    Ok(p) => {
                        let mut cur = BezPath::new();
                        let mut flush = |cur: &BezPath| {
                            if cur.elements().is_empty() { return; }
                            let b = cur.bounding_box();
                            if b.width() > 1.5 || b.height() > 1.5 || b.width() < 0.05 || b.height() < 0.05 { strays += 1; }
                            cells.push(vec![((b.x0 + b.x1) / 2.0).floor() as i64, ((b.y0 + b.y1) / 2.0).floor() as i64]);
                        };
                        for el in p.elements() { if let PathEl::MoveTo(_) = el { flush(&cur); cur = BezPath::new(); } cur.push(*el); }
                        flush(&cur);
                    }
                    Err(_) => { parsed = 0; }
                }
                layers.push(json!({"fill": cps(&norm_color(n.attribute("fill").unwrap_or(""))), "stroke": cps(&norm_color(n.attribute("stroke").unwrap_or(""))),
                                   "parsed": parsed, "cells": cells, "strays": strays}));
            }
            "image" => images.push(json!({
                "href": cps(n.attribute("href").or_else(|| n.attribute(("http://www.w3.org/1999/xlink", "href"))).unwrap_or("")),
                "x": n.attribute("x").map(milli).unwrap_or(0), "y": n.attribute("y").map(milli).unwrap_or(0),
                "w": n.attribute("width").map(milli).unwrap_or(-1), "h": n.attribute("height").map(milli).unwrap_or(-1)})),
            _ => {}
        }
    }
    json!({"wellformed": 1, "why": "", "root": root.tag_name().name(), "viewbox": vb, "kinds": kinds, "rects": rects, "layers": layers, "images": images})
}

pub fn svg_event(id: u64, tag: &str, qr: &QRCode, prog: &[Call]) -> Value {
    let (q, p) = (qr.clone(), prog.to_vec());
    let before = qr_modules(qr);
    let res = guarded(60, move || { let s = svg_builder(&p).to_str(&q); (s, qr_modules(&q)) });
    match res {
        Ok((s, after)) => json!({"ev": "Svg", "id": id, "tag": tag, "size": qr.size, "vals": vals_of(qr), "program": program_json(prog), "kind": "Ok",
                                 "obs": sense_svg(&s), "qr_unchanged": (before == after) as u8}),
        Err(k) => json!({"ev": "Svg", "id": id, "tag": tag, "size": qr.size, "vals": vals_of(qr), "program": program_json(prog), "kind": k,
                         "obs": sense_svg("<x"), "qr_unchanged": 1}),
    }
}

pub const COLORS: [[u8; 4]; 5] = [[0, 0, 0, 255], [255, 255, 255, 255], [18, 52, 86, 255], [200, 30, 40, 128], [1, 2, 3, 0]];
pub fn image_pool() -> Vec<String> {
    let mut v: Vec<String> = [
        "https://example.com/logo.png", "https://example.com/a?b=1&c=2", "data:image/png;base64,iVBORw0KGgoAAAANSUhEUgAAAAEAAAABCAYAAAAfFcSJAAAADUlEQVR42mNk+M9QDwADhgGAWjR9awAAAABJRU5ErkJggg==",
        "C:\\Users\\me\\logo.png", "./assets/logo.svg", "a&b", "a<b", "a>b", "a\"b", "a'b", "&amp;", "]]>", "--", "<!-- x -->", "\"/><script>alert(1)</script><image href=\"",
        "x y", "tab\there", "caf\u{e9}.png", "\u{65e5}\u{672c}.png", "&#x41;", "&lt;", "a&", "&", "<", "\"", "'",
    ].iter().map(|s| s.to_string()).collect();
    // XML specials combined with non-ASCII text, special first / last / both sides (escaping must work on characters, not bytes)
    for sp in ["&", "<", ">", "\"", "'"] {
        for na in ["\u{e9}", "\u{65e5}\u{672c}", "\u{1F600}", "J\u{e9}r\u{f4}me"] {
            v.push(format!("a{sp}{na}.png"));
            v.push(format!("{na}{sp}b"));
            v.push(format!("{na}{sp}{na}"));
        }
    }
    v.push("https://example.com/logo?size=64&label=caf\u{e9}".into());
    v.push("u".repeat(10_000));
    v
}

/// Image references with STRUCTURE (data URIs with parameters, URLs with user info / query / fragment, file and relative paths): one
/// XML special or non-ASCII character inserted at every position of every template, and every token (between the delimiters
/// ; , : / ? & = #) wrapped in double quotes, single quotes or angle brackets.  An escaper with a fast path keyed on the shape of
/// the string is only exposed by a special sitting in the right part of a well-formed reference.
pub fn image_structured(seed: u64, thorough: bool) -> Vec<String> {
    let templates = [
        "data:image/svg+xml;charset=utf-8;base64,PHN2Zy8+", "data:image/png;base64,iVBORw0KGgo=", "data:;base64,QQ==", "data:text/plain,hello",
        "data:image/svg+xml;utf8,<svg xmlns='http://www.w3.org/2000/svg'/>", "https://user:pw@example.com:8080/a/b.png?x=1&y=2#frag",
        "file:///C:/dir/logo.png", "../img/logo.final.v2.png", "//cdn.example.com/logo.svg", "javascript:alert(1)", "#fragment-only", "logo.png",
    ];
    let mut out = Vec::new();
    let mut n = 0u64;
    for t in templates {
        let chars: Vec<char> = t.chars().collect();
        for p in 0..=chars.len() {
            for sp in ["&", "<", ">", "\"", "'", "\u{e9}", "&amp;", "]]>"] {
                n += 1;
                if !thorough && n % 7 != seed % 7 { continue; }
                let mut s: String = chars[..p].iter().collect(); s.push_str(sp); s.extend(chars[p..].iter());
                out.push(s);
            }
        }
        // tokens wrapped
        let mut bounds = vec![0usize];
        for (i, c) in chars.iter().enumerate() { if ";,:/?&=#".contains(*c) { bounds.push(i); bounds.push(i + 1); } }
        bounds.push(chars.len());
        for w in bounds.windows(2) {
            if w[1] <= w[0] + 1 { continue; }
            for (l, r) in [("\"", "\""), ("'", "'"), ("<", ">"), ("&", ";")] {
                n += 1;
                if !thorough && n % 3 != seed % 3 { continue; }
                let mut s: String = chars[..w[0]].iter().collect(); s.push_str(l); s.extend(chars[w[0]..w[1]].iter()); s.push_str(r); s.extend(chars[w[1]..].iter());
                out.push(s);
            }
        }
    }
    out
}

pub fn xml_char(c: char) -> bool { matches!(c as u32, 0x9 | 0xA | 0xD | 0x20..=0xD7FF | 0xE000..=0xFFFD | 0x10000..=0x10FFFF) }
fn q1m(seed: u64) -> QRCode { qr_of(1, seed + 9) }
/// Image references kept by the coverage-guided fuzzer (fuzz/fuzz_targets/svgimage.rs): each as it is, and - for those with some
/// structure (a ':' or a ';') - with a double quote and an ampersand inserted after the first ':', before the first ';' and before the last ','.
pub fn svg_discovered(sink: &mut Sink, seed: u64, corpus: &str) {
    let mut names: Vec<_> = std::fs::read_dir(corpus).map(|d| d.filter_map(|e| e.ok()).map(|e| e.path()).collect::<Vec<_>>()).unwrap_or_default();
    names.sort();
    let qr = q1m(seed);
    let mut seen = std::collections::HashSet::new();
    let mut n = 0usize;
    for p in names {
        let Ok(data) = std::fs::read(&p) else { continue };
        let Ok(s) = String::from_utf8(data) else { continue };
        // characters that no XML 1.0 document can carry (NUL, most C0 controls, U+FFFE/U+FFFF) are outside the property's domain
        // (references are URLs, data URIs and paths): no claim
        if !s.chars().all(|c| xml_char(c) && (c as u32) >= 0x20) { continue; }      // and no TAB / CR / LF: references are URLs, data URIs and paths
        let mut variants = vec![s.clone()];
        let cuts: Vec<usize> = [s.find(':').map(|i| i + 1), s.find(';'), s.rfind(',')].into_iter().flatten().collect();
        for c in cuts { for sp in ["\"", "&"] { let mut t = s.clone(); t.insert_str(c, sp); variants.push(t); } }
        for v in variants {
            if !seen.insert(v.clone()) { continue; }
            let id = sink.id();
            sink.emit(&svg_event(id, &format!("svgfound:{}", n % 10), &qr, &[Call::ImageBackgroundShape(n % 3), Call::Image(v)]));
            n += 1;
        }
    }
}

/// C12: builder programs (all of length <= 2 over an abstract alphabet, longer random ones), all 40 versions x 6 shapes,
/// the image-string pool x 3 frame shapes.
pub fn svg(sink: &mut Sink, seed: u64, thorough: bool) {
    let mut r = rng(seed, 21);
    // alphabet of abstract calls
    let mut alpha: Vec<Call> = Vec::new();
    for s in 0..6 { alpha.push(Call::Shape(s)); }
    alpha.push(Call::ShapeColor(1, COLORS[2].to_vec())); alpha.push(Call::ShapeColor(0, COLORS[3].to_vec())); alpha.push(Call::ShapeColor(5, vec![9, 8, 7]));
    alpha.push(Call::Margin(0)); alpha.push(Call::Margin(7));
    alpha.push(Call::ModuleColor(COLORS[2].to_vec())); alpha.push(Call::ModuleColor(COLORS[3].to_vec()));
    alpha.push(Call::BackgroundColor(COLORS[1].to_vec())); alpha.push(Call::BackgroundColor(COLORS[4].to_vec()));
    alpha.push(Call::ModuleColorStr("#0a0B0c".into())); alpha.push(Call::BackgroundColorStr("red".into()));
    alpha.push(Call::Image("logo.png".into())); alpha.push(Call::Image("a?b=1&c=\"2\"".into()));
    alpha.push(Call::ImageBackgroundShape(1)); alpha.push(Call::ImageBackgroundColor(COLORS[3].to_vec()));
    let small = [qr_of(1, seed), qr_of(2, seed), qr_of(7, seed)];
    let mut progs: Vec<Vec<Call>> = vec![vec![]];
    for a in &alpha { progs.push(vec![a.clone()]); }
    for a in &alpha { for b in &alpha { progs.push(vec![a.clone(), b.clone()]); } }
    if thorough { for a in &alpha { for b in &alpha { for c in &alpha { if r.gen_range(0..4) == 0 { progs.push(vec![a.clone(), b.clone(), c.clone()]); } } } } }
    for i in 0..(if thorough { 1500 } else { 150 }) {
        let len = 3 + i % 6;
        progs.push((0..len).map(|_| alpha[r.gen_range(0..alpha.len())].clone()).collect());
    }
    for (i, p) in progs.iter().enumerate() {
        let id = sink.id();
        sink.emit(&svg_event(id, &format!("svgprog:{}", p.len().min(4)), &small[i % 3], p));
    }
    // all versions x shapes x margins
    for v in 1..=40usize {
        let qr = qr_of(v, seed);
        for s in 0..6usize {
            if !thorough && v > 12 && (v + s) % 2 != 0 { continue; }
            let m = [0usize, 4, 1, 9][(v + s) % 4];
            let mut p = vec![Call::Margin(m)];
            if (v + s) % 2 == 0 { p.push(Call::Shape(s)); } else { p.push(Call::ShapeColor(s, COLORS[(v + s) % 4].to_vec())); p.push(Call::Shape((s + 1) % 6)); }
            let id = sink.id();
            sink.emit(&svg_event(id, &format!("svgver:{v}:{s}"), &qr, &p));
        }
    }
    // hand-made matrices: all dark, all light, checkerboard, stripes, border only, sparse random
    for (i, v) in [1usize, 3, 9, 25].into_iter().enumerate() { for kind in 0..6usize {
        if !thorough && (i + kind) % 2 == 1 { continue; }
        let id = sink.id();
        sink.emit(&svg_event(id, &format!("svgsyn:{kind}"), &synthetic(v, kind, seed), &[Call::Margin(kind), Call::Shape(kind % 6), Call::ShapeColor((kind + 2) % 6, COLORS[2].to_vec())]));
    } }
    // many layers, the same shape more than once
    {
        let many: Vec<Call> = (0..11).map(|i| if i % 3 == 0 { Call::ShapeColor(i % 6, COLORS[i % 4].to_vec()) } else { Call::Shape((i * 5) % 6) }).collect();
        let id = sink.id();
        sink.emit(&svg_event(id, "svgmany", &small[0], &many));
        let id = sink.id();
        sink.emit(&svg_event(id, "svgmany", &small[1], &[Call::Shape(2), Call::Shape(2), Call::ShapeColor(2, COLORS[2].to_vec()), Call::Shape(2), Call::Margin(3), Call::Shape(0), Call::Shape(0)]));
    }
    // large versions with large margins: coordinates with three digits
    for (v, m) in [(40usize, 30usize), (33, 100), (21, 55)] {
        let id = sink.id();
        sink.emit(&svg_event(id, &format!("svgbig:{v}"), &qr_of(v, seed), &[Call::Margin(m), Call::Shape(v % 6), Call::Image("logo.png".into())]));
    }
    // image strings
    let qr = qr_of(3, seed);
    for (i, s) in image_pool().iter().enumerate() {
        for k in 0..3usize {
            if !thorough && k != i % 3 { continue; }
            let id = sink.id();
            sink.emit(&svg_event(id, &format!("svgimg:{i}"), &qr, &[Call::ImageBackgroundShape(k), Call::Image(s.clone())]));
        }
    }
    // every value of every colour channel once (hex digits, leading zeros, the #rrggbb / #rrggbbaa switch at alpha 255), in arrays of 4 and 3
    for c in 0..256usize {
        if !thorough && c % 3 != (seed % 3) as usize && !(c < 17 || c > 252) { continue; }
        let c8 = c as u8;
        let id = sink.id();
        let prog = if c % 2 == 0 { vec![Call::ModuleColor(vec![c8, 255 - c8, c8.wrapping_mul(7), 255]), Call::BackgroundColor(vec![9, c8, 200, c8])] }
                   else { vec![Call::ShapeColor(c % 6, vec![255 - c8, c8, 15, c8]), Call::BackgroundColor(vec![c8, c8, c8])] };
        sink.emit(&svg_event(id, "svgcolor", &q1m(seed), &prog));
    }
    // four-digit and larger margins: coordinates beyond 999 (every shape on the smallest symbol, two on the largest)
    for (i, m) in [824usize, 979, 980, 999, 1000, 1001, 1024, 1025, 1100, 2000, 9999, 10000, 65535, 65536, 100000].into_iter().enumerate() {
        if !thorough && i % 2 == (seed % 2) as usize && m != 1000 { continue; }
        let id = sink.id();
        sink.emit(&svg_event(id, &format!("svgmargin4:{m}"), &q1m(seed), &[Call::Margin(m), Call::Shape(i % 6), Call::Shape(0)]));
        if i % 4 == 0 { let id = sink.id(); sink.emit(&svg_event(id, &format!("svgmargin4:{m}"), &qr_of(40, seed), &[Call::Margin(m)])); }
    }
    // structured image references on the smallest symbol (the whole document is judged each time)
    let q1 = qr_of(1, seed);
    for (i, s) in image_structured(seed, thorough).into_iter().enumerate() {
        let id = sink.id();
        sink.emit(&svg_event(id, &format!("svghref:{}", i % 10), &q1, &[Call::ImageBackgroundShape(i % 3), Call::Image(s)]));
    }
    // margins 0..n on small symbols, 3-byte and slice colours
    for m in 0..(if thorough { 60 } else { 24 }) {
        let id = sink.id();
        sink.emit(&svg_event(id, "svgmargin", &small[m % 3], &[Call::Margin(m), Call::ModuleColor(vec![(m * 4) as u8, 2, 3]), Call::BackgroundColor(vec![250, 251, (m * 3) as u8, (255 - m) as u8])]));
    }
}

/// C18: default frame for all 40 versions x 3 frame shapes x margins 0..16 (one sweep event per (shape, margin) so that
/// monotonicity over versions is judged too), then explicit size / gap / position overrides.
pub fn frames(sink: &mut Sink, seed: u64, thorough: bool) {
    let mut r = rng(seed, 22);
    let qrs: Vec<QRCode> = (1..=40).map(|v| qr_of(v, seed)).collect();
    // the default frame may not depend on anything but the size and the options: each sweep uses symbols of ONE level (L, M, Q, H rotating over
    // the sweeps; all four per sweep in the thorough tier), and one sweep per shape uses symbols of mixed levels and modes
    let by_level: Vec<Vec<QRCode>> = (0..4usize).map(|e| (1..=40).map(|v| qr_of_level(v, e, seed + 1)).collect()).collect();
    for k in 0..3usize {
        for m in (0..=16usize).chain([17usize, 33, 64, 120]) { for lv in 0..5usize {
            if lv < 4 && !thorough && lv != (k + m) % 4 { continue; }
            if lv == 4 && m != 4 && m != 0 { continue; }
            let qrs: &Vec<QRCode> = if lv < 4 { &by_level[lv] } else { &qrs };
            let mut rows = Vec::new();
            let mut kind = "Ok".to_string();
            for v in 1..=40usize {
                let p = vec![Call::Margin(m), Call::ImageBackgroundShape(k), Call::Image("logo.png".into())];
                let q = qrs[v - 1].clone();
                match guarded(60, move || svg_builder(&p).to_str(&q)) {
                    Ok(s) => { let o = sense_svg(&s); rows.push(json!({"v": v, "size": qrs[v - 1].size, "wellformed": o["wellformed"], "rects": o["rects"], "images": o["images"].as_array().map(|a| a.iter().map(|im| json!({"x": im["x"], "y": im["y"], "w": im["w"], "h": im["h"]})).collect::<Vec<_>>()).unwrap_or_default()})); }
                    Err(e) => { kind = e; }
                }
            }
            let id = sink.id();
            sink.emit(&json!({"ev": "FrameSweep", "id": id, "tag": format!("frame:{k}:{m}:{lv}"), "shape": k, "margin": m, "kind": kind, "rows": rows}));
        } }
    }
    // overrides: exactly representable quarter-module values and arbitrary reals
    for i in 0..(if thorough { 6000 } else { 420 }) {
        let v = 1 + (i * 7) % 40;
        let qr = &qrs[v - 1];
        let n = qr.size as f64;
        let m = [0usize, 4, 2, 11][i % 4];
        let quarter = i % 2 == 0;
        let mut val = |lo: f64, hi: f64| -> f64 { let x: f64 = r.gen_range(lo..hi); if quarter { (x * 4.0).round() / 4.0 } else { (x * 1000.0).round() / 1000.0 } };
        let mut p = vec![Call::Margin(m), Call::ImageBackgroundShape(i % 3), Call::Image("logo.png".into())];
        let sel = (i / 2) % 8;
        // every fourth override program takes its values from the WHOLE legal range instead of the comfortable one: images smaller than a
        // module or larger than the whole drawing, gaps up to a symbol side, positions anywhere in the drawing and a little outside
        let wide = (i / 16) % 4 == 3;
        let cellsf = n + 2.0 * m as f64;
        if sel & 1 != 0 { p.push(Call::ImageSize(if !wide { val(1.0, n * 0.45) } else { match (i / 64) % 4 { 0 => val(0.01, 1.0), 1 => val(n * 0.45, cellsf), 2 => val(cellsf, cellsf + 3.0), _ => val(cellsf, 3.0 * cellsf) } })); }
        if sel & 2 != 0 { p.push(Call::ImageGap(if !wide { val(0.0, 3.0) } else { val(3.0, n) })); }
        if sel & 4 != 0 {
            let (lo, hi) = if !wide { (n * 0.3, n * 0.7 + m as f64) } else { (-5.0, cellsf + 5.0) };
            let x = val(lo, hi); let y = val(lo, hi); p.push(Call::ImagePosition(x, y));
        }
        if sel == 0 { p.push(Call::ImageSize(val(1.0, n * 0.45))); p.push(Call::ImageSize(val(1.0, n * 0.45))); }
        let id = sink.id();
        let mut ev = svg_event(id, &format!("frameopt:{sel}"), qr, &p);
        ev["ev"] = json!("SvgFrame");
        if let Some(o) = ev.get_mut("obs").and_then(|o| o.as_object_mut()) { o.insert("layers".into(), json!([])); }
        if let Some(o) = ev.as_object_mut() { o.insert("vals".into(), json!([])); }
        sink.emit(&ev);
    }
}

// ------------------------------------------------------------------ raster (C13)
#[cfg(feature = "image")]
fn close(a: [u8; 4], b: [u8; 4]) -> bool { (0..4).all(|i| (a[i] as i32 - b[i] as i32).abs() <= 1) }
#[cfg(feature = "image")]
fn packbits(bits: &[u8]) -> Vec<u32> { pack(bits, 24, 1) }

#[cfg(feature = "image")]
pub fn image_builder(p: &[Call]) -> ImageBuilder {
    let mut b = ImageBuilder::default();
    for c in p { match c { Call::FitWidth(w) => { b.fit_width(*w); } Call::FitHeight(h) => { b.fit_height(*h); } other => other.apply(&mut b) } }
    b
}
#[cfg(feature = "image")]
fn decode_png(bytes: &[u8]) -> Option<(u32, u32, Vec<u8>)> {
    let dec = png::Decoder::new(bytes);
    let mut reader = dec.read_info().ok()?;
    let mut buf = vec![0u8; reader.output_buffer_size()];
    let info = reader.next_frame(&mut buf).ok()?;
    if info.color_type != png::ColorType::Rgba || info.bit_depth != png::BitDepth::Eight { return None; }
    buf.truncate(info.buffer_size());
    Some((info.width, info.height, buf))
}
#[cfg(feature = "image")]
fn demul(p: &[u8]) -> [u8; 4] {
    let a = p[3] as u32;
    if a == 0 { return [0, 0, 0, 0]; }
    if a == 255 { return [p[0], p[1], p[2], 255]; }
    let f = |x: u8| -> u8 { (((x as f32) * 255.0 / (a as f32)) + 0.5).min(255.0) as u8 };
    [f(p[0]), f(p[1]), f(p[2]), p[3]]
}

#[cfg(feature = "image")]
/// Projection of the pixmap: side, palette of the distinct colours found at cell centres (premultiplied RGBA), per cell the
/// palette index of its centre pixel (15 = palette overflow) and, at integer scale, whether the whole cell is uniform.
pub fn raster_event(id: u64, tag: &str, qr: &QRCode, prog: &[Call]) -> Value {
    let (q, p) = (qr.clone(), prog.to_vec());
    let before = qr_modules(qr);
    let res = guarded(120, move || {
        let b = image_builder(&p);
        let pm = b.to_pixmap(&q);
        let bytes = b.to_bytes(&q);
        (pm.width(), pm.height(), pm.data().to_vec(), bytes.ok(), qr_modules(&q))
    });
    let mut ev = json!({"ev": "Raster", "id": id, "tag": tag, "size": qr.size, "vals": vals_of(qr), "program": program_json(prog)});
    match res {
        Err(k) => { ev["kind"] = json!(k); ev["obs"] = json!({"w": 0, "h": 0, "cells": 0, "scale_int": 0, "palette": [], "centre": [], "uniform": [], "png": 0, "png_w": 0, "png_h": 0, "png_equal": 0}); ev["qr_unchanged"] = json!(1); }
        Ok((w, h, data, bytes, after)) => {
            let margin = prog.iter().rev().find_map(|c| if let Call::Margin(m) = c { Some(*m) } else { None }).unwrap_or(4);
            let cells = qr.size + 2 * margin;
            let px = |x: u32, y: u32| -> [u8; 4] { let i = ((y * w + x) * 4) as usize; [data[i], data[i + 1], data[i + 2], data[i + 3]] };
            let scale_int = if w as usize % cells == 0 && w == h { w as usize / cells } else { 0 };
            let mut win: Option<usize> = None;
            let mut palette: Vec<[u8; 4]> = Vec::new();
            let (mut centre, mut uniform) = (vec![], vec![]);
            let mut outer: Vec<usize> = Vec::new();
            if w == h && w as usize >= cells {
                let s = w as f64 / cells as f64;
                // very large margins: only a window of cells around the symbol is reported cell by cell (win = first cell of the window in
                // both directions, n + 8 cells wide); for everything outside it the sensor reports which palette entries and whether all cells
                // are uniform - the quiet zone is one colour, so that loses nothing
                let windowed = margin > 150;
                let (w0, w1) = if windowed { (margin - 4, margin + qr.size + 4) } else { (0, cells) };
                for cy in 0..cells {
                    let (mut rc, mut ru) = (vec![], vec![]);
                    for cx in 0..cells {
                        if windowed && !(cy >= w0 && cy < w1 && cx >= w0 && cx < w1) {
                            // sparse probe of the far quiet zone (every 7th cell), full probe of the 16 cells next to the window
                            let near = cy + 16 >= w0 && cy < w1 + 16 && cx + 16 >= w0 && cx < w1 + 16;
                            if near || (cx % 7 == 0 && cy % 7 == 0) || cx < 2 || cy < 2 || cx + 2 >= cells || cy + 2 >= cells {
                                let x = (((cx as f64 + 0.5) * s).floor() as u32).min(w - 1);
                                let y = (((cy as f64 + 0.5) * s).floor() as u32).min(h - 1);
                                let c = px(x, y);
                                let idx = match palette.iter().position(|p| *p == c) { Some(i) => i, None => { if palette.len() < 15 { palette.push(c); palette.len() - 1 } else { 15 } } };
                                if !outer.contains(&idx) { outer.push(idx); }
                            }
                            continue;
                        }
                        let x = (((cx as f64 + 0.5) * s).floor() as u32).min(w - 1);
                        let y = (((cy as f64 + 0.5) * s).floor() as u32).min(h - 1);
                        let c = px(x, y);
                        let idx = match palette.iter().position(|p| *p == c) { Some(i) => i, None => { if palette.len() < 15 { palette.push(c); palette.len() - 1 } else { 15 } } };
                        rc.push(idx as u8);
                        if scale_int > 0 {
                            let k = scale_int as u32;
                            let mut all = true;
                            for yy in cy as u32 * k..(cy as u32 + 1) * k { for xx in cx as u32 * k..(cx as u32 + 1) * k { all &= close(px(xx, yy), c); } }
                            ru.push(all as u8);
                        }
                    }
                    if windowed && !(cy >= w0 && cy < w1) { continue; }
                    centre.push(pack(&rc, 6, 4));
                    if scale_int > 0 { uniform.push(packbits(&ru)); }
                }
                if windowed { win = Some(w0); }
            }
            let (mut png, mut pw, mut ph, mut peq) = (0, 0u32, 0u32, 0);
            if let Some(b) = bytes { if let Some((dw, dh, buf)) = decode_png(&b) {
                png = 1; pw = dw; ph = dh;
                if dw == w && dh == h && buf.len() == data.len() {
                    peq = 1;
                    for i in (0..data.len()).step_by(4) { let d = demul(&data[i..i + 4]); let e = [buf[i], buf[i + 1], buf[i + 2], buf[i + 3]]; if !(close(d, e) && (d[3] == e[3])) { peq = 0; break; } }
                }
            } }
            ev["kind"] = json!("Ok");
            ev["obs"] = json!({"w": w, "h": h, "cells": cells, "scale_int": scale_int, "palette": palette.iter().map(|c| c.to_vec()).collect::<Vec<_>>(),
                               "centre": centre, "uniform": uniform, "png": png, "png_w": pw, "png_h": ph, "png_equal": peq});
            if let Some(w0) = win { ev["obs"]["win"] = json!(w0); ev["obs"]["outer"] = json!(outer); }
            ev["qr_unchanged"] = json!((before == after) as u8);
        }
    }
    ev
}

#[cfg(feature = "image")]
pub fn raster(sink: &mut Sink, seed: u64, thorough: bool) {
    let versions: Vec<usize> = if thorough { (1..=40).collect() } else { vec![1, 2, 7, 14, 27, 40] };
    let pairs: [([u8; 4], [u8; 4]); 4] = [([0, 0, 0, 255], [255, 255, 255, 255]), ([18, 52, 86, 255], [250, 240, 230, 64]), ([200, 30, 40, 255], [255, 255, 255, 0]), ([255, 255, 255, 255], [0, 0, 0, 255])];
    let mut i = 0usize;
    for &v in &versions {
        let qr = qr_of(v, seed);
        for s in 0..6usize {
            for (mi, &m) in [0usize, 4].iter().enumerate() {
                let cells = (qr.size + 2 * m) as u32;
                // fit modes: original, 4x, 7x, ~4.5x, width only, height only, both unequal
                let mut fits: Vec<(Option<u32>, Option<u32>)> = vec![(None, None), (Some(4 * cells), None), (None, Some(7 * cells)), (Some(cells * 9 / 2 + 1), None), (Some(5 * cells), Some(6 * cells)), (Some(6 * cells + 3), Some(5 * cells))];
                // the square shape is claimed pixel-exact at EVERY integer scale: 2x and 3x too (other shapes are only claimed from 4 px per module)
                if s == 0 { fits.push((Some(2 * cells), None)); fits.push((None, Some(3 * cells))); fits.push((Some(11 * cells), None)); }
                for (fi, &(fw, fh)) in fits.iter().enumerate() {
                    i += 1;
                    // keep the quick tier small: rotate fit modes over (version, shape, margin) cells
                    if !thorough && fi < 6 && (v + s + mi + fi) % 3 != 0 { continue; }
                    if !thorough && fi >= 6 && (v + mi + fi) % 2 != 0 { continue; }
                    if v >= 27 && fi >= 1 && (v + s + fi) % 2 == 0 { continue; }
                    let (fg, bg) = pairs[(i + s) % 4];
                    let mut p = vec![Call::Margin(m), Call::Shape(s), Call::ModuleColor(fg.to_vec()), Call::BackgroundColor(bg.to_vec())];
                    if let Some(w) = fw { p.push(Call::FitWidth(w)); }
                    if let Some(h) = fh { p.push(Call::FitHeight(h)); }
                    let id = sink.id();
                    sink.emit(&raster_event(id, &format!("raster:{v}:{s}:{fi}"), &qr, &p));
                }
            }
        }
    }
    for kind in 0..6usize {
        let q = synthetic(2, kind, seed);
        let c = q.size as u32 + 4;
        let id = sink.id();
        sink.emit(&raster_event(id, &format!("rastersyn:{kind}"), &q, &[Call::Margin(2), Call::Shape(if kind < 3 { 0 } else { kind }), Call::FitWidth(5 * c)]));
    }
    // four-digit margins (coordinates beyond 999, sides beyond 2000 pixels at original scale)
    {
        let q1 = qr_of(1, seed + 5);
        let ms: &[(usize, u32)] = if thorough { &[(999, 0), (1000, 0), (1023, 0), (1024, 0), (1025, 0), (1100, 0), (1500, 2), (2000, 0), (4096, 0)] } else { &[(1000, 0), (1024, 0), (1025, 0), (1100, 0)] };
        for &(m, k) in ms {
            let mut p = vec![Call::Margin(m), Call::Shape(0)];
            if k > 0 { p.push(Call::FitWidth(k * (q1.size + 2 * m) as u32)); }
            let id = sink.id();
            sink.emit(&raster_event(id, &format!("rastermargin:{m}"), &q1, &p));
        }
    }
    // fit sweep: EVERY requested side from 4 to 8 pixels per cell on two small symbols (any rounding slip of the scale shows at some side),
    // and every integer scale 1..12; width, height and both
    for (si, (v, m)) in [(1usize, 0usize), (2, 1)].into_iter().enumerate() {
        let q = qr_of(v, seed + 3);
        let cells = (q.size + 2 * m) as u32;
        let sides: Vec<u32> = (4 * cells..=8 * cells).chain((1..=12).map(|k| k * cells)).collect();
        for (i, &side) in sides.iter().enumerate() {
            if !thorough && (i + si) % 9 != (seed % 9) as usize { continue; }
            let fit = match i % 3 { 0 => vec![Call::FitWidth(side)], 1 => vec![Call::FitHeight(side)], _ => vec![Call::FitWidth(side), Call::FitHeight(side + 1 + (i as u32 % 5))] };
            let mut p = vec![Call::Margin(m), Call::Shape(if side % cells == 0 { 0 } else { i % 6 })];
            p.extend(fit);
            let id = sink.id();
            sink.emit(&raster_event(id, &format!("rasterfit:{v}"), &q, &p));
        }
    }
    // very large fit requests (tens of pixels per module even at version 40): the side must be exactly the requested one
    {
        let q1 = qr_of(1, seed);
        let bigs: &[(u32, bool)] = if thorough { &[(4147, true), (5001, false), (4097, true), (8195, false), (8250, true)] } else { &[(4147, true), (5001, false)] };
        for (i, &(side, by_width)) in bigs.iter().enumerate() {
            let m = if side == 8250 { 6 } else { i % 3 };          // 8250 = 33 cells x 250 px: integer scale, every pixel judged
            let id = sink.id();
            sink.emit(&raster_event(id, &format!("rasterbig:{side}"), &q1, &[Call::Margin(m), Call::Shape(0), if by_width { Call::FitWidth(side) } else { Call::FitHeight(side) }]));
        }
    }
    // option programs: forwarding of every Builder method, order of fit_width / fit_height
    let qr = qr_of(2, seed);
    let n = qr.size as u32;
    let progs: Vec<Vec<Call>> = vec![
        vec![Call::FitHeight(5 * (n + 8)), Call::FitWidth(4 * (n + 8))],
        vec![Call::FitWidth(4 * (n + 8)), Call::FitHeight(5 * (n + 8)), Call::FitWidth(6 * (n + 8))],
        vec![Call::Margin(2), Call::Margin(3), Call::FitWidth(4 * (n + 6))],
        // the same fit option set twice (last value wins, in both directions), and width / height overriding each other
        vec![Call::FitWidth(2 * (n + 8)), Call::FitWidth(7 * (n + 8))],
        vec![Call::FitWidth(7 * (n + 8)), Call::FitWidth(2 * (n + 8))],
        vec![Call::FitHeight(3 * (n + 8)), Call::FitHeight(9 * (n + 8))],
        vec![Call::FitHeight(9 * (n + 8)), Call::FitHeight(3 * (n + 8))],
        vec![Call::FitWidth(2 * (n + 8)), Call::FitHeight(3 * (n + 8)), Call::FitWidth(8 * (n + 8)), Call::FitHeight(9 * (n + 8))],
        vec![Call::FitWidth(8 * (n + 8)), Call::FitHeight(9 * (n + 8)), Call::FitHeight(4 * (n + 8))],
        vec![Call::ModuleColor(vec![1, 2, 3]), Call::ModuleColor(vec![18, 52, 86, 255]), Call::FitWidth(4 * (n + 8))],
        vec![Call::ShapeColor(0, vec![18, 52, 86, 255]), Call::FitWidth(4 * (n + 8))],
        vec![Call::BackgroundColor(vec![250, 240, 230, 64]), Call::ModuleColor(vec![18, 52, 86, 255]), Call::Shape(2), Call::FitHeight(8 * (n + 8))],
    ];
    for p in &progs {
        let id = sink.id();
        sink.emit(&raster_event(id, "rasterprog", &qr, p));
    }
    // growth (G06): ImageBuilder forwards the embedded-image options too: the frame is drawn (the image file itself does not
    // exist and is skipped by the rasteriser), so the cell at the frame centre shows the frame colour
    let qr7 = qr_of(7, seed);
    let n7 = qr7.size as u32;
    for k in 0..3usize {
        for (j, extra) in [vec![], vec![Call::ImagePosition(14.5, 30.5)], vec![Call::ImageSize(9.0), Call::ImageGap(1.0), Call::ImagePosition(30.5, 14.5)], vec![Call::ImageSize(7.0)]].into_iter().enumerate() {
            let mut p = vec![Call::Margin(2), Call::Shape(0), Call::Image("no-such-file.png".into()), Call::ImageBackgroundColor(vec![200, 30, 40, 255]), Call::ImageBackgroundShape(k), Call::FitWidth(4 * (n7 + 4))];
            p.extend(extra);
            let id = sink.id();
            sink.emit(&raster_event(id, &format!("rasterimg:{k}:{j}"), &qr7, &p));
        }
    }
}

// ------------------------------------------------------------------ renderer sessions (C14: a rendering depends on the QR code and the FINAL options only)
/// One builder object lives through setter calls and renderings interleaved; every rendering is recorded with the calls made
/// so far (judged against the registers of the model) and compared with a fresh builder given the same calls.
pub fn sessions(sink: &mut Sink, seed: u64, thorough: bool, alphabet: &str, behaviours: &str) {
    let mut r = rng(seed, 23);
    // sessions exported by TLC from spec/RenderSession.tla: setter calls over its alphabet and renderings of code 1 / 2
    let tlc_alpha: Vec<Call> = std::fs::read_to_string(alphabet).ok().and_then(|s| serde_json::from_str::<Vec<Value>>(&s).ok()).unwrap_or_default().iter().filter_map(Call::from_json).collect();
    let mut tlc_plans: Vec<Vec<(Vec<Call>, usize)>> = Vec::new();
    for l in std::fs::read_to_string(behaviours).unwrap_or_default().lines() {
        let Ok(b) = serde_json::from_str::<Value>(l) else { continue };
        let mut plan: Vec<(Vec<Call>, usize)> = Vec::new();
        let mut cur: Vec<Call> = Vec::new();
        for e in b["hist"].as_array().cloned().unwrap_or_default() {
            if e["op"] == "set" { if let Some(c) = tlc_alpha.get(e["i"].as_u64().unwrap_or(1) as usize - 1) { cur.push(c.clone()); } }
            else { plan.push((std::mem::take(&mut cur), e["code"].as_u64().unwrap_or(1) as usize - 1)); }
        }
        if !plan.is_empty() { tlc_plans.push(plan); }
    }
    let alpha: Vec<Call> = vec![
        Call::Shape(1), Call::Shape(4), Call::ShapeColor(0, COLORS[2].to_vec()), Call::Margin(0), Call::Margin(7), Call::Margin(4),
        Call::ModuleColor(COLORS[2].to_vec()), Call::BackgroundColor(COLORS[3].to_vec()), Call::Image("logo.png".into()), Call::Image("other.png".into()),
        Call::ImageBackgroundShape(1), Call::ImageBackgroundColor(COLORS[2].to_vec()), Call::ImageSize(7.0), Call::ImageGap(1.5), Call::ImagePosition(12.0, 13.5),
    ];
    // three symbols: two DIFFERENT ones of the same version, level and mask (a renderer may not tell symbols apart by their fields), and a larger one
    let q0 = qr_of(2, seed);
    let q1 = {
        let mut r2 = rng(seed, 24);
        let m0 = q0.mask.map(|m| m as usize);
        let spec = BuildSpec { input: payload(&mut r2, 2, 14, true), ecl: Some(2), mode: None, version: Some(2), mask: m0, grp: 0, tag: String::new(), lite: false };
        match run_build(&spec) { Outcome::Ok(q) if qr_modules(&q) != qr_modules(&q0) => *q, _ => qr_of(2, seed + 1) }
    };
    // ... and 24 more small ones for the long sessions (a cache with a capacity only fills up when one builder sees many different symbols)
    let mut qrs = vec![q0, q1, qr_of(5, seed)];
    for k in 0..24u64 { qrs.push(qr_of(1, seed + 100 + k)); }
    // segments: calls, then a rendering of qrs[k]
    let mut plans: Vec<Vec<(Vec<Call>, usize)>> = Vec::new();
    for a in &alpha { for b in &alpha {
        if matches!((a, b), (Call::Image(_), _) | (_, Call::Image(_))) || r.gen_range(0..6) == 0 {
            plans.push(vec![(vec![a.clone()], 0), (vec![b.clone()], 0)]);                 // a, render, b, render (same code)
        }
    } }
    // two symbols of different versions rendered by one builder with margins that give the same overall side (25 + 2 m1 = 37 + 2 m2), with and
    // without an image, in both orders; and the two same-version symbols one after the other with nothing in between
    for (m1, m2) in [(6usize, 0usize), (8, 2), (10, 4)] { for with_image in [true, false] {
        let img = |v: Vec<Call>| -> Vec<Call> { if with_image { let mut x = vec![Call::Image("logo.png".into()), Call::ImageBackgroundShape(m2 % 3)]; x.extend(v); x } else { v } };
        plans.push(vec![(img(vec![Call::Margin(m1)]), 0), (vec![Call::Margin(m2)], 2), (vec![Call::Margin(m1)], 1)]);
        plans.push(vec![(img(vec![Call::Margin(m2)]), 2), (vec![Call::Margin(m1)], 0), (vec![], 1), (vec![Call::Margin(m2)], 2)]);
    } }
    for sh in 0..6usize { plans.push(vec![(vec![Call::Shape(sh)], 0), (vec![], 1), (vec![], 0), (vec![], 1)]); }
    // long sessions: one builder, no setter, 24 different symbols one after the other, then earlier ones again (the one before the last first)
    for (li, first) in [vec![Call::Margin(1)], vec![Call::Shape(1), Call::Image("logo.png".into())], vec![]].into_iter().enumerate() {
        if !thorough && li == 2 { continue; }
        let mut plan: Vec<(Vec<Call>, usize)> = vec![(first, 3)];
        for k in 4..27usize { plan.push((vec![], k)); }
        for k in [25usize, 26, 25, 3, 10, 26, 9, 8, 24, 3] { plan.push((vec![], k)); }
        plans.push(plan);
    }
    for k in 0..(if thorough { 12 } else { 3 }) {
        plans.push((0..9).map(|i| (if (i + k) % 3 == 0 { vec![alpha[(i * 7 + k) % alpha.len()].clone()] } else { vec![] }, i % 3)).collect());     // nine renderings of one builder
    }
    for _ in 0..(if thorough { 600 } else { 120 }) {
        let segs = r.gen_range(2..5);
        plans.push((0..segs).map(|_| ((0..r.gen_range(0..3)).map(|_| alpha[r.gen_range(0..alpha.len())].clone()).collect(), r.gen_range(0..3))).collect());
    }
    let ngen = tlc_plans.len();
    let plans: Vec<Vec<(Vec<Call>, usize)>> = tlc_plans.into_iter().chain(plans.into_iter()).collect();
    for (pi, plan) in plans.iter().enumerate() {
        let plan2 = plan.clone();
        let qrs2 = qrs.clone();
        // the whole session runs as one job: one builder object
        let res = guarded(120, move || {
            let mut b = SvgBuilder::default();
            let mut sofar: Vec<Call> = Vec::new();
            let mut outs = Vec::new();
            let mut slot: QRCode = qrs2[0].clone();
            for (calls, k) in &plan2 {
                for c in calls { c.apply(&mut b); sofar.push(c.clone()); }
                // the rendering is obtained through a different entry point from one step to the next: to_str; to_file (read back);
                // to_str after a to_file that RETURNED an error; to_str after another renderer used the same code.  The fresh
                // builder goes through the same entry point, so a defect of the entry point itself (C19's business) cancels out.
                // the symbol is handed over through ONE reused stack slot: consecutive renderings see different symbols at the same address
                slot = qrs2[*k].clone();
                let qr = &slot;
                let via = |bb: &SvgBuilder, tag: &str| -> String {
                    match (pi + outs.len()) % 4 {
                        0 => bb.to_str(qr),
                        1 => { let p = scratch_file(&format!("session-{tag}.svg")); let r = bb.to_file(qr, &p); let t = std::fs::read_to_string(&p).unwrap_or_default(); let _ = std::fs::remove_file(&p);
                               match r { Ok(()) => t, Err(e) => format!("to_file failed: {e:?}") } }
                        2 => { let _ = bb.to_file(qr, "/nonexistent-directory-fqv/x.svg"); bb.to_str(qr) }
                        _ => { other_renderer(qr); bb.to_str(qr) }
                    }
                };
                let s = via(&b, "live");
                let fresh = via(&svg_builder(&sofar), "fresh");
                outs.push((sofar.clone(), *k, s == fresh, s));
            }
            outs
        });
        match res {
            Ok(outs) => for (si, (prog, k, same, svg)) in outs.into_iter().enumerate() {
                let id = sink.id();
                sink.emit(&json!({"ev": "Svg", "id": id, "tag": format!("{}:{}", if pi < ngen { "sessiongen" } else { "session" }, si.min(3)), "size": qrs[k].size, "vals": vals_of(&qrs[k]), "program": program_json(&prog), "kind": "Ok",
                                  "obs": sense_svg(&svg), "qr_unchanged": 1, "fresh_eq": same as u8, "session": pi}));
            },
            Err(kd) => { let id = sink.id(); sink.emit(&json!({"ev": "Svg", "id": id, "tag": "session:0", "size": qrs[0].size, "vals": vals_of(&qrs[0]), "program": [], "kind": kd, "obs": sense_svg("<x"), "qr_unchanged": 1, "fresh_eq": 0, "session": pi})); }
        }
    }
    // the same for the raster builder (pixmap bytes compared with a fresh builder's)
    #[cfg(feature = "image")]
    for pi in 0..(if thorough { 120 } else { 30 }) {
        let segs = r.gen_range(2..4);
        let plan: Vec<(Vec<Call>, usize)> = (0..segs).map(|si| {
            let mut calls: Vec<Call> = (0..r.gen_range(0..3)).map(|_| match r.gen_range(0..6) { 0 => Call::Margin(r.gen_range(0..6)), 1 => Call::Shape(r.gen_range(0..6)), 2 => Call::FitWidth(4 * 40 + 8 * r.gen_range(0..4)), 3 => Call::ModuleColor(COLORS[2].to_vec()), 4 => Call::BackgroundColor(vec![250, 240, 230, 255]), _ => Call::FitHeight(5 * 40) }).collect();
            if si == 0 && pi % 3 == 0 { calls.push(Call::Image("logo.png".into())); }
            (calls, r.gen_range(0..2))
        }).collect();
        // the first raster session is a long one: 24 different symbols through one builder, then earlier ones again
        let plan: Vec<(Vec<Call>, usize)> = if pi == 0 { let mut p: Vec<(Vec<Call>, usize)> = vec![(vec![Call::Margin(1), Call::FitWidth(92)], 3)]; for k in 4..27usize { p.push((vec![], k)); } for k in [25usize, 26, 25, 3, 10] { p.push((vec![], k)); } p } else { plan };
        let qrs2 = qrs.clone();
        let res = guarded(300, move || {
            let mut b = ImageBuilder::default();
            let mut sofar: Vec<Call> = Vec::new();
            let mut same_all = Vec::new();
            let mut slot: QRCode = qrs2[0].clone();
            for (calls, k) in &plan {
                for c in calls { match c { Call::FitWidth(w) => { b.fit_width(*w); } Call::FitHeight(h) => { b.fit_height(*h); } other => other.apply(&mut b) } sofar.push(c.clone()); }
                slot = qrs2[*k].clone();
                let qr = &slot;
                let via = |bb: &ImageBuilder, tag: &str| -> Vec<u8> {
                    match (pi + same_all.len()) % 4 {
                        0 => { let pm = bb.to_pixmap(qr); let mut v = pm.width().to_le_bytes().to_vec(); v.extend_from_slice(pm.data()); v }
                        1 => bb.to_bytes(qr).unwrap_or_else(|e| format!("to_bytes failed: {e:?}").into_bytes()),
                        2 => { let p = scratch_file(&format!("rsession-{tag}.png")); let r = bb.to_file(qr, &p); let t = std::fs::read(&p).unwrap_or_default(); let _ = std::fs::remove_file(&p);
                               match r { Ok(()) => t, Err(e) => format!("to_file failed: {e:?}").into_bytes() } }
                        _ => { let _ = bb.to_file(qr, "/nonexistent-directory-fqv/x.png"); let _ = SvgBuilder::default().to_str(qr); let pm = bb.to_pixmap(qr); let mut v = pm.width().to_le_bytes().to_vec(); v.extend_from_slice(pm.data()); v }
                    }
                };
                let live = via(&b, "live");
                let fresh = via(&image_builder(&sofar), "fresh");
                same_all.push((sofar.len(), *k, live == fresh));
            }
            same_all
        });
        let id = sink.id();
        match res {
            Ok(v) => sink.emit(&json!({"ev": "RasterSession", "id": id, "tag": "rsession", "kind": "Ok", "renders": v.iter().map(|x| vec![x.0, x.1, x.2 as usize]).collect::<Vec<_>>()})),
            Err(kd) => sink.emit(&json!({"ev": "RasterSession", "id": id, "tag": "rsession", "kind": kd, "renders": []})),
        }
    }
}

#[cfg(feature = "image")]
fn other_renderer(qr: &QRCode) { let mut ib = ImageBuilder::default(); ib.fit_width(64); let _ = ib.to_pixmap(qr); }
#[cfg(not(feature = "image"))]
fn other_renderer(qr: &QRCode) { let _ = qr.to_str(); }
fn scratch_file(name: &str) -> String {
    let base = std::env::var("FQV_SCRATCH").map(std::path::PathBuf::from).unwrap_or_else(|_| std::env::temp_dir());
    base.join(format!("fqv-{}-{name}", std::process::id())).to_string_lossy().to_string()
}

#[cfg(feature = "image")]
/// C18 through ImageBuilder: explicit size, gap and position (x different from y, all over the symbol), three frame shapes; the file the
/// reference names does not exist, so the frame stays visible.  Integer scale, square modules: every cell centre is judged.
pub fn rasterframes(sink: &mut Sink, seed: u64, thorough: bool) {
    let mut r = rng(seed, 29);
    for (vi, v) in [3usize, 7, 2].into_iter().enumerate() {
        let qr = qr_of(v, seed + 11);
        let n = qr.size as f64;
        for i in 0..(if thorough { 60 } else { 12 }) {
            let m = [2usize, 0, 4][i % 3];
            let size = [3.0, 5.0, 7.0, 4.5, 9.0][i % 5];
            let gap = [1.0, 0.5, 2.0, 1.5][i % 4];
            let lo = m as f64 + size / 2.0 + gap; let hi = m as f64 + n - size / 2.0 - gap;
            let q4 = |x: f64| (x * 4.0).round() / 4.0;
            let (mut x, mut y) = (q4(r.gen_range(lo..hi)), q4(r.gen_range(lo..hi)));
            if (x - y).abs() < 3.0 { if x + 4.0 < hi { x += 4.0 } else { y = (y - 4.0).max(lo) } }
            let cells = (qr.size + 2 * m) as u32;
            let p = vec![Call::Margin(m), Call::Shape(0), Call::Image("no-such-file.png".into()), Call::ImageBackgroundColor(vec![200, 30, 40, 255]), Call::ImageBackgroundShape((i + vi) % 3),
                         Call::ImageSize(size), Call::ImageGap(gap), Call::ImagePosition(x, y)];
            let mut p = p;
            match i % 4 { 0 => p.push(Call::FitWidth(4 * cells)), 1 => p.push(Call::FitHeight(3 * cells)), 2 => {} , _ => { p.insert(1, Call::FitWidth(9 * cells)); p.push(Call::FitHeight(5 * cells)); } }
            let id = sink.id();
            sink.emit(&raster_event(id, &format!("rasterframe:{v}:{}", (i + vi) % 3), &qr, &p));
        }
    }
}

// ------------------------------------------------------------------ custom shape callbacks (C15: "custom shape callbacks ... see a correct map")
/// The callback encodes the type label it is handed into the height of the sub-path it returns: v.{type+1}
fn label_callback(y: usize, x: usize, m: fast_qr::Module) -> String {
    format!("M{x},{y}h1v.{}h-1", ((m.module_type() as u8) >> 1) + 1)
}
fn dark_only_callback(y: usize, x: usize, m: fast_qr::Module) -> String {
    if m.value() { format!("M{x},{y}h1v.5h-1") } else { format!("M{x},{y}h1v.9h-1") }
}
pub fn callbacks(sink: &mut Sink, seed: u64, thorough: bool) {
    for v in 1..=40usize {
        if !thorough && v > 10 && v % 5 != 0 { continue; }
        let qr = qr_of(v, seed + 5);
        for (which, margin) in [(0usize, 0usize), (0, 3), (1, 4)] {
            let q = qr.clone();
            let res = guarded(60, move || {
                let mut b = SvgBuilder::default();
                b.margin(margin);
                b.shape(Shape::Command(if which == 0 { label_callback } else { dark_only_callback }));
                b.to_str(&q)
            });
            let (_, types) = pack_matrix(&qr_modules(&qr), qr.size);
            let id = sink.id();
            let mut ev = json!({"ev": "SvgCallback", "id": id, "tag": format!("callback:{v}:{which}"), "size": qr.size, "vals": vals_of(&qr), "types": types, "margin": margin, "which": which});
            match res {
                Ok(svg) => {
                    let mut cells: Vec<Vec<i64>> = Vec::new();
                    let mut ok = 1;
                    match roxmltree::Document::parse(&svg) {
                        Ok(doc) => {
                            for n in doc.root_element().children().filter(|n| n.is_element() && n.tag_name().name() == "path") {
                                if let Ok(p) = BezPath::from_svg(n.attribute("d").unwrap_or("")) {
                                    let mut cur = BezPath::new();
                                    let mut flush = |cur: &BezPath| { if cur.elements().is_empty() { return; } let b = cur.bounding_box();
                                        cells.push(vec![b.x0.round() as i64, b.y0.round() as i64, (b.height() * 10.0).round() as i64]); };
                                    for el in p.elements() { if let PathEl::MoveTo(_) = el { flush(&cur); cur = BezPath::new(); } cur.push(*el); }
                                    flush(&cur);
                                } else { ok = 0; }
                            }
                        }
                        Err(_) => { ok = 0; }
                    }
                    ev["kind"] = json!("Ok"); ev["parsed"] = json!(ok); ev["cells"] = json!(cells);
                }
                Err(k) => { ev["kind"] = json!(k); ev["parsed"] = json!(0); ev["cells"] = json!([]); }
            }
            sink.emit(&ev);
        }
    }
}

// ------------------------------------------------------------------ growth: conversions and the Module API (not listed properties)
#[cfg(feature = "image")]
/// Colour conversions for every input type, shape <-> string conversions, Module constructors / set / toggle, QRCode::default
pub fn conv(sink: &mut Sink, seed: u64, thorough: bool) {
    use fast_qr::convert::{rgba2hex, Color};
    use fast_qr::{Module, ModuleType};
    let mut r = rng(seed, 51);
    let n = if thorough { 20_000 } else { 2_000 };
    for i in 0..n {
        let c: [u8; 4] = match i % 4 { 0 => [r.gen(), r.gen(), r.gen(), 255], 1 => [r.gen_range(0..16), r.gen_range(0..16), r.gen_range(0..16), r.gen_range(0..16)], 2 => [r.gen(), r.gen(), r.gen(), r.gen()], _ => [0, 255, r.gen(), [0u8, 1, 254, 255][i % 4]] };
        let (how, s): (&str, Result<String, String>) = match (i / 4) % 5 {
            0 => ("array4", Ok(Color::from(c).0)),
            1 => ("hex", Ok(rgba2hex(c))),
            2 => ("slice4", guarded(10, move || Color::from(&c[..]).0)),
            3 => ("vec4", guarded(10, move || Color::from(c.to_vec()).0)),
            _ => ("array3", Ok(Color::from([c[0], c[1], c[2]]).0)),
        };
        let arr: Vec<u8> = if how == "array3" { c[..3].to_vec() } else { c.to_vec() };
        let id = sink.id();
        let (kind, out) = match s { Ok(x) => ("Ok".to_string(), cps(&x)), Err(k) => (k, vec![]) };
        sink.emit(&json!({"ev": "ConvColor", "id": id, "tag": format!("conv:{how}"), "how": how, "c": arr, "kind": kind, "out": out}));
    }
    // slices of the wrong length: the documented panic ("Invalid color length"), never anything else
    for len in [0usize, 1, 2, 5, 8] {
        let v: Vec<u8> = (0..len).map(|_| r.gen()).collect();
        let v2 = v.clone();
        let res = guarded(10, move || Color::from(&v2[..]).0);
        let id = sink.id();
        sink.emit(&json!({"ev": "ConvColor", "id": id, "tag": "conv:badslice", "how": "slice", "c": v, "kind": match &res { Ok(_) => "Ok".to_string(), Err(k) => k.clone() }, "out": res.map(|x| cps(&x)).unwrap_or_default()}));
    }
    // strings are passed through
    for s in ["red", "#FFF", "", "rgb(1,2,3)", "#12345678"] {
        let id = sink.id();
        sink.emit(&json!({"ev": "ConvColor", "id": id, "tag": "conv:str", "how": "str", "c": cps(s), "kind": "Ok", "out": cps(&Color::from(s).0)}));
    }
    // Shape <-> name
    let names = ["square", "circle", "rounded_square", "vertical", "horizontal", "diamond", "SQUARE", "Circle", "Rounded_Square", "DIAMOND", "roundedsquare", "", "hexagon", " square"];
    for name in names {
        let sh: Shape = Shape::from(name.to_string());
        let idx: usize = sh.into();
        let back: &str = sh.into();
        let id = sink.id();
        sink.emit(&json!({"ev": "ConvShape", "id": id, "tag": "conv:shape", "name": cps(name), "index": idx, "back": cps(back)}));
    }
    // Module API: constructors, set, toggle for every (value, type)
    let types = [ModuleType::Data, ModuleType::FinderPattern, ModuleType::Alignment, ModuleType::Timing, ModuleType::Format, ModuleType::Version, ModuleType::DarkModule, ModuleType::Empty];
    for (ti, t) in types.iter().enumerate() {
        for v in [false, true] {
            let m = Module::new(v, *t);
            let mut s1 = m; s1.set(true);
            let mut s0 = m; s0.set(false);
            let mut tg = m; tg.toggle();
            let ctor = match ti { 0 => Module::data(v), 1 => Module::finder_pattern(v), 2 => Module::alignment(v), 3 => Module::timing(v), 4 => Module::format(v), 5 => Module::version(v), 6 => Module::dark(v), _ => Module::empty(v) };
            let proj = |m: Module| vec![m.value() as u8, (m.module_type() as u8) >> 1];
            let id = sink.id();
            sink.emit(&json!({"ev": "ModuleApi", "id": id, "tag": "conv:module", "value": v as u8, "type": ti, "new": proj(m), "ctor": proj(ctor), "set1": proj(s1), "set0": proj(s0), "toggle": proj(tg)}));
        }
    }
    // small API contracts: Display of levels and errors, error conversions, Module comparisons
    {
        use fast_qr::convert::ConvertError;
        use fast_qr::qr::QRCodeError;
        let lv: Vec<Vec<u32>> = LEVELS.iter().map(|e| cps(&format!("{e}"))).collect();
        let e1 = cps(&format!("{}", QRCodeError::EncodedData)); let e2 = cps(&format!("{}", QRCodeError::SpecifiedVersion));
        let d1 = cps(&format!("{:?}", QRCodeError::EncodedData)); let d2 = cps(&format!("{:?}", QRCodeError::SpecifiedVersion));
        let io = || std::io::Error::new(std::io::ErrorKind::Other, "x");
        let kinds: Vec<&str> = vec![
            match ConvertError::from(fast_qr::convert::svg::SvgError::IoError(io())) { ConvertError::Io(_) => "Io", ConvertError::Svg(_) => "Svg", ConvertError::Image(_) => "Image" },
            match ConvertError::from(fast_qr::convert::svg::SvgError::SvgError("e".into())) { ConvertError::Io(_) => "Io", ConvertError::Svg(_) => "Svg", ConvertError::Image(_) => "Image" },
            match ConvertError::from(fast_qr::convert::image::ImageError::IoError(io())) { ConvertError::Io(_) => "Io", ConvertError::Svg(_) => "Svg", ConvertError::Image(_) => "Image" },
            match ConvertError::from(fast_qr::convert::image::ImageError::ImageError("e".into())) { ConvertError::Io(_) => "Io", ConvertError::Svg(_) => "Svg", ConvertError::Image(_) => "Image" },
            match ConvertError::from(fast_qr::convert::image::ImageError::EncodingError("e".into())) { ConvertError::Io(_) => "Io", ConvertError::Svg(_) => "Svg", ConvertError::Image(_) => "Image" },
        ];
        let meq = [Module::data(true) == true, Module::data(false) == false, Module::data(true) == Module::data(true), Module::data(true) == Module::finder_pattern(true), Module::from(true).value(), Module::from(false).value()];
        let id = sink.id();
        sink.emit(&json!({"ev": "ApiContracts", "id": id, "tag": "conv:api", "levels": lv, "err_display": [e1, e2], "err_debug": [d1, d2], "convert": kinds,
                          "module_eq": meq.iter().map(|b| *b as u8).collect::<Vec<_>>(), "image_err_display": cps(&format!("{}", fast_qr::convert::image::ImageError::ImageError("boom".into())))}));
    }
    // QRCode::default(size): all light data modules, no fields, rows of `size` modules
    for size in [21usize, 25, 177] {
        let q = QRCode::default(size);
        let all_default = q.data.iter().all(|m| m.0 == 0);
        let id = sink.id();
        sink.emit(&json!({"ev": "QrDefault", "id": id, "tag": "conv:default", "size": size, "reported": q.size, "all_default": all_default as u8, "rowlen": q[size - 1].len(),
                          "fields_none": (q.version.is_none() && q.ecl.is_none() && q.mask.is_none() && q.mode.is_none()) as u8}));
    }
}
