//! Conformance harness for the fast_qr TLA+ specification: drives the real crate and records
//! ndjson events (integers only) that spec/Trace.tla validates.
pub mod common;
pub mod gen;
pub mod scen_build;
#[cfg(feature = "hooks")]
pub mod scen_hook;
pub mod scen_text;
#[cfg(feature = "svg")]
pub mod scen_render;
#[cfg(feature = "image")]
pub mod scen_file;
#[cfg(any(feature = "hooks", feature = "wasmonly"))]
pub mod scen_wasm;
pub mod scen_hist;
#[cfg(feature = "diffsel")]
pub mod scen_diff;
