use fast_qr::qr::QRCodeError;
use fast_qr::{Mask, Mode, QRBuilder, QRCode, Version, ECL};
use serde_json::{json, Value};
use std::sync::mpsc;
use std::time::Duration;

pub const VERSIONS: [Version; 40] = [
    Version::V01, Version::V02, Version::V03, Version::V04, Version::V05, Version::V06, Version::V07, Version::V08,
    Version::V09, Version::V10, Version::V11, Version::V12, Version::V13, Version::V14, Version::V15, Version::V16,
    Version::V17, Version::V18, Version::V19, Version::V20, Version::V21, Version::V22, Version::V23, Version::V24,
    Version::V25, Version::V26, Version::V27, Version::V28, Version::V29, Version::V30, Version::V31, Version::V32,
    Version::V33, Version::V34, Version::V35, Version::V36, Version::V37, Version::V38, Version::V39, Version::V40,
];
pub const MASKS: [Mask; 8] = [
    Mask::Checkerboard, Mask::HorizontalLines, Mask::VerticalLines, Mask::DiagonalLines,
    Mask::LargeCheckerboard, Mask::Fields, Mask::Diamonds, Mask::Meadow,
];
pub const LEVELS: [ECL; 4] = [ECL::L, ECL::M, ECL::Q, ECL::H];
pub const LEVEL_NAMES: [&str; 4] = ["L", "M", "Q", "H"];
pub const MODES: [Mode; 3] = [Mode::Numeric, Mode::Alphanumeric, Mode::Byte];

pub fn version(v: usize) -> Version { VERSIONS[v - 1] }
pub fn ecl_name(e: ECL) -> &'static str { match e { ECL::L => "L", ECL::M => "M", ECL::Q => "Q", ECL::H => "H" } }
pub fn mode_num(m: Mode) -> i64 { match m { Mode::Numeric => 0, Mode::Alphanumeric => 1, Mode::Byte => 2 } }

/// One build request: option registers as plain numbers (None = unset)
#[derive(Clone, Debug, Default)]
pub struct BuildSpec {
    pub input: Vec<u8>,
    pub ecl: Option<usize>,     // 0..3 = L M Q H
    pub mode: Option<usize>,    // 0..2
    pub version: Option<usize>, // 1..40
    pub mask: Option<usize>,    // 0..7
    pub grp: u64,               // same-payload group for C08 (0 = none)
    pub tag: String,            // coverage cell
    pub lite: bool,             // judge outcome and reported fields only (no matrix in the event)
}

impl BuildSpec {
    pub fn builder(&self) -> QRBuilder {
        // the same bytes reach the builder through different containers: exact-capacity Vec, Vec with spare capacity, &str / String
        // (when the bytes are valid UTF-8) -- the result may depend on the bytes only
        let k = self.input.len() + self.input.first().map(|b| *b as usize).unwrap_or(0);
        let mut b = match k % 4 {
            0 => { let mut v = Vec::with_capacity(self.input.len() + 1 + k % 61); v.extend_from_slice(&self.input); QRBuilder::new(v) }
            1 => match std::str::from_utf8(&self.input) { Ok(s) => QRBuilder::new(s), Err(_) => QRBuilder::new(self.input.clone()) },
            2 => match String::from_utf8(self.input.clone()) { Ok(s) => QRBuilder::new(s), Err(e) => QRBuilder::new(e.into_bytes()) },
            _ => QRBuilder::new(self.input.clone()),
        };
        if let Some(e) = self.ecl { b.ecl(LEVELS[e]); }
        if let Some(m) = self.mode { b.mode(MODES[m]); }
        if let Some(v) = self.version { b.version(version(v)); }
        if let Some(m) = self.mask { b.mask(MASKS[m]); }
        b
    }
    pub fn opts_json(&self) -> Value {
        json!({
            "ecl": self.ecl.map(|e| LEVEL_NAMES[e]).unwrap_or("none"),
            "mode": self.mode.map(|m| m as i64).unwrap_or(-1),
            "version": self.version.map(|v| v as i64).unwrap_or(-1),
            "mask": self.mask.map(|m| m as i64).unwrap_or(-1),
        })
    }
}

pub fn pack(bits: &[u8], per: usize, width: usize) -> Vec<u32> {
    bits.chunks(per)
        .map(|ch| ch.iter().enumerate().fold(0u32, |a, (i, &b)| a | ((b as u32) << (i * width))))
        .collect()
}

/// values 24 per integer and labels 8 per integer (3 bits each), row by row
pub fn pack_matrix(modules: &[u8], size: usize) -> (Vec<Vec<u32>>, Vec<Vec<u32>>) {
    let mut vals = Vec::with_capacity(size);
    let mut types = Vec::with_capacity(size);
    for r in 0..size {
        let row = &modules[r * size..(r + 1) * size];
        let v: Vec<u8> = row.iter().map(|m| m & 1).collect();
        let t: Vec<u8> = row.iter().map(|m| (m >> 1) & 7).collect();
        vals.push(pack(&v, 24, 1));
        types.push(pack(&t, 8, 3));
    }
    (vals, types)
}

pub fn qr_modules(qr: &QRCode) -> Vec<u8> {
    let n = qr.size.min(177);
    qr.data[..n * n].iter().map(|m| m.0).collect()
}

/// Projection of a returned QRCode to the abstract observation of the specification
pub fn qr_json(qr: &QRCode) -> Value {
    let n = qr.size;
    if n == 0 || n > 177 {
        return json!({"kind": "Ok", "size": n, "version": -1, "ecl": "none", "mask": -1, "mode": -1,
                      "vals": [], "types": [], "tail_clean": false});
    }
    let modules = qr_modules(qr);
    let (vals, types) = pack_matrix(&modules, n);
    let tail_clean = qr.data[n * n..].iter().all(|m| m.0 == 0);
    // the public row accessor (Index<usize>) read cell by cell, against the backing array the projection above is taken from
    let rows_agree = std::panic::catch_unwind(|| (0..n).all(|r| { let row = &qr[r]; row.len() == n && (0..n).all(|c| row[c].0 == modules[r * n + c]) })).unwrap_or(false);
    // digest of the matrix (FNV-1a over the module bytes): lets events that do not carry the matrix still be compared for equality
    let digest = { let mut h: u64 = 0xcbf29ce484222325; for b in &modules { h ^= *b as u64; h = h.wrapping_mul(0x100000001b3); } [(h & 0x7fff_ffff) as u32, ((h >> 32) & 0x7fff_ffff) as u32] };
    json!({
        "digest": digest,
        "rows_agree": rows_agree,
        "kind": "Ok",
        "size": n,
        "version": qr.version.map(|v| v as i64 + 1).unwrap_or(-1),
        "ecl": qr.ecl.map(ecl_name).unwrap_or("none"),
        "mask": qr.mask.map(|m| m as i64).unwrap_or(-1),
        "mode": qr.mode.map(mode_num).unwrap_or(-1),
        "vals": vals,
        "types": types,
        "tail_clean": tail_clean,
    })
}

pub fn err_name(e: &QRCodeError) -> &'static str {
    match e { QRCodeError::EncodedData => "EncodedData", QRCodeError::SpecifiedVersion => "SpecifiedVersion" }
}

pub fn panic_msg(p: Box<dyn std::any::Any + Send>) -> String {
    let s = if let Some(s) = p.downcast_ref::<&str>() { s.to_string() }
            else if let Some(s) = p.downcast_ref::<String>() { s.clone() }
            else { "panic".to_string() };
    s.chars().filter(|c| c.is_ascii() && *c != '"' && *c != '\\').take(160).collect()
}

pub fn quiet_panics() {
    std::panic::set_hook(Box::new(|_| {}));
}

pub enum Outcome { Ok(Box<QRCode>), Err(&'static str), Panic(String), Timeout }

type Job = Box<dyn FnOnce() + Send + 'static>;
static EXECUTOR: std::sync::Mutex<Option<mpsc::Sender<Job>>> = std::sync::Mutex::new(None);

/// Runs `f` under catch_unwind with a watchdog: a panic or a hang is data, not a crash.
/// All calls of a driver run on ONE long-lived executor thread (replaced only after a timeout), so whatever a call leaves
/// behind on its thread (thread-locals, per-thread scratch) is still there for the next call: state leaking from one
/// build or rendering into the next becomes visible in every scenario, not only in the multi-threaded ones.
pub fn guarded<T: Send + 'static>(secs: u64, f: impl FnOnce() -> T + Send + 'static) -> Result<T, String> {
    let (tx, rx) = mpsc::channel();
    let job: Job = Box::new(move || {
        let r = std::panic::catch_unwind(std::panic::AssertUnwindSafe(f));
        let _ = tx.send(r.map_err(panic_msg));
    });
    {
        let mut ex = EXECUTOR.lock().unwrap_or_else(|e| e.into_inner());
        let mut job = Some(job);
        for _ in 0..2 {
            if ex.is_none() {
                let (jtx, jrx) = mpsc::channel::<Job>();
                let h = std::thread::Builder::new().stack_size(16 << 20).spawn(move || { for j in jrx { j(); } });
                if h.is_err() { return Err("spawn failed".into()); }
                *ex = Some(jtx);
            }
            match ex.as_ref().unwrap().send(job.take().unwrap()) {
                Ok(()) => break,
                Err(e) => { job = Some(e.0); *ex = None; }
            }
        }
    }
    match rx.recv_timeout(Duration::from_secs(secs)) {
        Ok(Ok(v)) => Ok(v),
        Ok(Err(m)) => Err(format!("Panic:{m}")),
        Err(_) => {
            // the executor is stuck in the call: abandon it, the next call gets a fresh one
            *EXECUTOR.lock().unwrap_or_else(|e| e.into_inner()) = None;
            Err("Timeout".into())
        }
    }
}

pub fn run_build(spec: &BuildSpec) -> Outcome {
    let s = spec.clone();
    match guarded(30, move || s.builder().build().map(Box::new).map_err(|e| err_name(&e))) {
        Ok(Ok(qr)) => Outcome::Ok(qr),
        Ok(Err(e)) => Outcome::Err(e),
        Err(m) if m == "Timeout" => Outcome::Timeout,
        Err(m) => Outcome::Panic(m),
    }
}

pub fn outcome_json(o: &Outcome) -> Value {
    match o {
        Outcome::Ok(qr) => qr_json(qr),
        Outcome::Err(e) => json!({"kind": "Err", "why": e}),
        Outcome::Panic(m) => json!({"kind": "Panic", "why": m}),
        Outcome::Timeout => json!({"kind": "Timeout", "why": "watchdog"}),
    }
}

pub fn build_event(id: u64, spec: &BuildSpec, out: &Outcome) -> Value {
    let mut o = outcome_json(out);
    if spec.lite {
        if let Some(m) = o.as_object_mut() { m.remove("vals"); m.remove("types"); }
    }
    // very long constant-content inputs travel as [byte, length]
    if spec.input.len() > 20_000 && spec.input.iter().all(|&b| b == spec.input[0]) {
        return json!({
            "ev": "Build", "id": id, "tag": spec.tag, "grp": spec.grp, "lite": spec.lite as u8,
            "input": [], "rep": [spec.input[0], spec.input.len()], "opts": spec.opts_json(), "out": o,
        });
    }
    json!({
        "ev": "Build", "id": id, "tag": spec.tag, "grp": spec.grp, "lite": spec.lite as u8,
        "input": spec.input, "opts": spec.opts_json(), "out": o,
    })
}

/// Sink that numbers events and writes one JSON object per line
pub struct Sink { pub out: Box<dyn std::io::Write>, pub next_id: u64 }
impl Sink {
    pub fn new(path: &str) -> Sink {
        let out: Box<dyn std::io::Write> = if path == "-" { Box::new(std::io::stdout()) }
            else { Box::new(std::io::BufWriter::new(std::fs::File::create(path).expect("create output"))) };
        Sink { out, next_id: 1 }
    }
    pub fn id(&mut self) -> u64 { let i = self.next_id; self.next_id += 1; i }
    pub fn emit(&mut self, v: &Value) { writeln!(self.out, "{}", v).expect("write event"); }
    pub fn build(&mut self, spec: &BuildSpec) -> Outcome {
        let o = run_build(spec);
        let id = self.id();
        let mut ev = build_event(id, spec, &o);
        // an automatic-mode build that did not return: does the same input build with each mode forced?
        // (lets the specification tell a wrong mode choice from any other crash)
        if spec.mode.is_none() && matches!(o, Outcome::Panic(_) | Outcome::Timeout) {
            let kinds: Vec<&str> = (0..3).map(|m| {
                let mut s = spec.clone(); s.mode = Some(m);
                match run_build(&s) { Outcome::Ok(_) => "Ok", Outcome::Err(e) => e, Outcome::Panic(_) => "Panic", Outcome::Timeout => "Timeout" }
            }).collect();
            ev["forced_kinds"] = json!(kinds);
        }
        self.emit(&ev);
        o
    }
}
