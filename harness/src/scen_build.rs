//! Build scenarios: lists of option/payload combinations driven through the public QRBuilder API.
use crate::common::*;
use serde_json::json;
use crate::gen::*;
use rand::Rng;

fn spec(input: Vec<u8>, ecl: Option<usize>, mode: Option<usize>, version: Option<usize>, mask: Option<usize>, tag: String) -> BuildSpec {
    BuildSpec { input, ecl, mode, version, mask, grp: 0, tag, lite: false }
}

/// All 160 (version, level) cells, several boundary lengths each, modes and forced masks rotating so that
/// every (level, mask) pair and every version sees forced and automatic masks.  `reps` payload sets per cell.
pub fn cells(seed: u64, reps: usize, vmax_full: usize) -> Vec<BuildSpec> {
    let mut out = Vec::new();
    let mut r = rng(seed, 1);
    for rep in 0..reps {
        for v in 1..=40usize {
            for e in 0..4usize {
                let k = v * 4 + e + rep * 7;
                let (m1, m2, m3) = (k % 3, (k + 1) % 3, (k + 2) % 3);
                let tag = |s: &str| format!("cell:{v}:{e}:{s}");
                // full capacity, automatic mask and version
                let cap1 = capacity(m1, e, v);
                out.push(spec(payload(&mut r, m1, cap1, false), Some(e), Some(m1), None, None, tag("cap")));
                // smallest length that needs this version, forced mask
                let lo2 = if v == 1 { 1 } else { capacity(m2, e, v - 1) + 1 };
                out.push(spec(payload(&mut r, m2, lo2, false), Some(e), Some(m2), None, Some((k + e) % 8), tag("lo")));
                // empty / one character in a forced version
                out.push(spec(payload(&mut r, m3, (k / 3) % 2, false), Some(e), Some(m3), Some(v), Some((k + 3) % 8), tag("tiny")));
                if v <= vmax_full || (v + e + rep) % 4 == 0 {
                    // automatic mode, one short of capacity
                    let cap = capacity(m1, e, v);
                    if cap >= 1 { out.push(spec(payload(&mut r, m1, cap - 1, true), Some(e), None, Some(v), None, tag("auto"))); }
                    // half capacity, forced mask
                    let cap2 = capacity(m2, e, v);
                    out.push(spec(payload(&mut r, m2, cap2 / 2, false), Some(e), Some(m2), Some(v), Some((k + 5) % 8), tag("half")));
                }
                if e == 2 {
                    // nothing forced at all: default level must be Q
                    let cap = capacity(m3, 2, v);
                    let lo = if v == 1 { 0 } else { capacity(m3, 2, v - 1) + 1 };
                    let n = r.gen_range(lo..=cap);
                    out.push(spec(payload(&mut r, m3, n, true), None, None, None, None, tag("default")));
                }
            }
        }
    }
    out
}

/// C04: forced (version, level, mask) cells with a short payload.  Thorough: all 1 280; quick: a Latin-square
/// schedule of 320 in which every version meets 8 (level, mask) pairs and every pair meets 10 versions.
pub fn formats(seed: u64, thorough: bool) -> Vec<BuildSpec> {
    let mut out = Vec::new();
    let mut r = rng(seed, 2);
    for v in 1..=40usize {
        for e in 0..4usize {
            for m in 0..8usize {
                if !thorough && (e * 8 + m) % 4 != v % 4 { continue; }
                let mode = (v + e + m) % 3;
                let n = 1 + (v + m) % 3;
                out.push(spec(payload(&mut r, mode, n, true), Some(e), None, Some(v), Some(m), format!("fmt:{v}:{e}:{m}")));
            }
        }
        // automatic selection of each option
        let e = v % 4;
        let cap = capacity(2, 2, v);
        let lo = if v == 1 { 0 } else { capacity(2, 2, v - 1) + 1 };
        let n = r.gen_range(lo..=cap);
        out.push(spec(payload(&mut r, 2, n, true), None, None, None, None, format!("fmt-auto:{v}:all")));
        out.push(spec(payload(&mut r, 1, 3, true), Some(e), None, Some(v), None, format!("fmt-auto:{v}:mask")));
        out.push(spec(payload(&mut r, 0, 5, true), None, Some(2), Some(v), Some(v % 8), format!("fmt-auto:{v}:level")));
    }
    // every forced / automatic combination of the four options (16) x 4 levels x 8 masks on small symbols:
    // an option must be honoured whatever else is or is not forced
    for combo in 0..16usize {
        for e in 0..4usize {
            for m in 0..8usize {
                let p: Vec<u8> = if (e + m) % 2 == 0 { b"HELLO WORLD 12345".to_vec() } else { payload(&mut r, 1, 6 + (e * 8 + m) % 9, true) };
                let mode = if (combo + e + m) % 2 == 0 { 1 } else { 2 };
                let ver = 3 + (e + m) % 3;
                out.push(spec(p, if combo & 1 != 0 { Some(e) } else { None }, if combo & 2 != 0 { Some(mode) } else { None },
                              if combo & 4 != 0 { Some(ver) } else { None }, if combo & 8 != 0 { Some(m) } else { None }, format!("optcombo:{combo}")));
            }
        }
    }
    out
}

/// C05: every capacity threshold (mode, level, version) at cap-1, cap, cap+1 with automatic version; every forced
/// version against three lengths; lengths far beyond version 40.
pub fn thresholds(seed: u64, thorough: bool) -> Vec<BuildSpec> {
    let mut out = Vec::new();
    let mut r = rng(seed, 3);
    for mode in 0..3usize {
        for e in 0..4usize {
            for v in 1..=40usize {
                let cap = capacity(mode, e, v);
                for (i, n) in [cap.saturating_sub(1), cap, cap + 1].into_iter().enumerate() {
                    let forced_mode = (v + i) % 2 == 0;
                    let mut s = spec(payload(&mut r, mode, n, !forced_mode), Some(e), if forced_mode { Some(mode) } else { None }, None,
                                     if (v + e + i) % 3 == 0 { Some((v + i) % 8) } else { None }, format!("thr:{mode}:{e}:{v}:{i}"));
                    // full re-decoding everywhere in thorough; on small versions and one level of the larger ones in quick
                    s.lite = !(thorough || v <= 10 || (e == v % 4 && i == 1));
                    out.push(s);
                }
                // forced version: exactly enough, one too many characters, comfortably small
                for (i, n) in [cap, cap + 1, cap / 3].into_iter().enumerate() {
                    let mut s = spec(payload(&mut r, mode, n, false), Some(e), Some(mode), Some(v), Some((v + e) % 8), format!("forced:{mode}:{e}:{v}:{i}"));
                    s.lite = !(v <= 6 || (thorough && (v + e + mode) % 4 == 0));
                    out.push(s);
                }
            }
            // beyond version 40 with a forced version that is also too small: the data-too-big error wins (the minimal version does not exist)
            for (i, fv) in [1usize, 20].into_iter().enumerate() {
                let mut s = spec(payload(&mut r, mode, 7090 + i, false), Some(e), Some(mode), Some(fv), None, format!("beyondforced:{mode}:{e}:{i}"));
                s.lite = true;
                out.push(s);
            }
            for (i, n) in [7090usize, 10_000, 100_000, 1_000_000].into_iter().enumerate() {
                let p = if n > 20_000 { vec![[b'7', b'A', 0xA5][mode]; n] } else { payload(&mut r, mode, n, false) };
                let mut s = spec(p, Some(e), if i % 2 == 0 { Some(mode) } else { None },
                                 if i >= 2 { Some(40) } else { None }, None, format!("beyond:{mode}:{e}:{i}"));
                s.lite = true;
                out.push(s);
            }
        }
    }
    // no level given: the thresholds of the default level (Q), automatic and forced mode, automatic and forced version
    for mode in 0..3usize {
        for v in 1..=40usize {
            let cap = capacity(mode, 2, v);
            for (i, n) in [cap.saturating_sub(1), cap, cap + 1].into_iter().enumerate() {
                let forced_mode = (v + i) % 2 == 1;
                let mut s = spec(payload(&mut r, mode, n, !forced_mode), None, if forced_mode { Some(mode) } else { None }, if (i == 1 && v % 3 == 0) || (i == 2 && v % 3 != 0) || (i == 0 && v % 3 == 2) { Some(v) } else { None }, None, format!("thrdefault:{mode}:{v}:{i}"));
                s.lite = !(v <= 4 || (thorough && v % 8 == 0));
                out.push(s);
            }
        }
    }
    out
}

/// C08: the same payload under all eight forced masks and the automatic one (one group), all 40 versions.
pub fn maskgroups(seed: u64, thorough: bool) -> Vec<BuildSpec> {
    let mut out = Vec::new();
    let mut r = rng(seed, 4);
    let mut grp = 0u64;
    let reps = if thorough { 3 } else { 1 };
    for v in 1..=40usize {
        for e in 0..4usize {
            if !thorough && e != v % 4 { continue; }
            for rep in 0..reps {
                let mode = (v + e + rep) % 3;
                let cap = capacity(mode, e, v);
                let lo = if v == 1 { 0 } else { capacity(mode, e, v - 1) + 1 };
                let n = match rep { 0 => r.gen_range(lo..=cap), 1 => cap, _ => lo };
                let p = payload(&mut r, mode, n, false);
                grp += 1;
                for m in 0..9usize {
                    let mut s = spec(p.clone(), Some(e), Some(mode), Some(v), if m < 8 { Some(m) } else { None }, format!("mask:{v}:{e}:{m}"));
                    s.grp = grp;
                    out.push(s);
                }
            }
        }
    }
    out
}

/// C09: every byte value at every position of short strings with digit / alphanumeric filler; all class patterns
/// (digit / alphanumeric-only / other) up to a length bound; long strings with one odd byte.
pub fn modes(seed: u64, thorough: bool) -> Vec<BuildSpec> {
    let mut out = Vec::new();
    let mut r = rng(seed, 5);
    for len in 1..=4usize {
        for pos in 0..len {
            for filler in 0..2usize {
                for b in 0..=255u8 {
                    let mut p = payload(&mut r, filler, len, false);
                    p[pos] = b;
                    out.push(spec(p, if b % 5 == 0 { Some((b as usize / 5) % 4) } else { None }, None, None, None, format!("byte:{len}:{pos}:{filler}")));
                }
            }
        }
    }
    // every byte value at the first, middle, last and a random position of longer strings (word-sized and odd lengths):
    // only the outcome and the reported mode are judged for these
    for &len in &[8usize, 9, 16, 17, 33] {
        for filler in 0..2usize {
            for b in 0..=255u8 {
                for (pi, pos) in [0usize, len / 2, len - 1, r.gen_range(0..len)].into_iter().enumerate() {
                    let mut p = payload(&mut r, filler, len, false);
                    p[pos] = b;
                    let mut s = spec(p, None, None, None, None, format!("bytelong:{len}:{pi}:{filler}"));
                    s.lite = true;
                    out.push(s);
                }
            }
        }
    }
    // text-level contents: valid UTF-8 by Unicode category (the mode choice is defined on bytes; char-level classification differs here)
    for (i, (cat, t)) in unicode_texts(seed, thorough).into_iter().enumerate() {
        out.push(spec(t, if i % 4 == 0 { Some(i % 4) } else { None }, None, None, None, format!("unicode:{cat}")));
    }
    out.extend(longclass(seed, thorough));
    // class patterns: 0 = digit, 1 = alphanumeric but not digit, 2 = other
    let reps: [&[u8]; 3] = [b"0189", b"AZ $%*+-./:", b"az,#_\x00\x7f\x80\xff;@[`"];
    let maxlen = if thorough { 8 } else { 6 };
    for len in 0..=maxlen {
        let total = 3usize.pow(len as u32);
        for code in 0..total {
            let mut c = code;
            let p: Vec<u8> = (0..len).map(|_| { let k = c % 3; c /= 3; reps[k][r.gen_range(0..reps[k].len())] }).collect();
            out.push(spec(p, None, None, None, None, format!("pattern:{len}")));
        }
    }
    // long strings, one odd byte at a random position (or none)
    for i in 0..(if thorough { 400 } else { 80 }) {
        let base = (i / 4) % 2;
        let n = r.gen_range(20..600);
        let mut p = payload(&mut r, base, n, false);
        match i % 4 {
            0 | 1 => { let at = r.gen_range(0..n); p[at] = if base == 0 { let k = 1 + (i / 4) % 2; reps[k][r.gen_range(0..reps[k].len())] } else { reps[2][r.gen_range(0..reps[2].len())] }; }
            2 => { p[n - 1] = b'a'; }
            _ => {}
        }
        let mut s = spec(p, None, None, None, None, format!("long:{}", i % 4));
        s.lite = n > 150;
        out.push(s);
    }
    out
}

fn content(r: &mut rand::rngs::StdRng, kind: usize, n: usize) -> Vec<u8> {
    match kind {
        0 => vec![0u8; n],
        1 => vec![0xFFu8; n],
        2 => (0..n).map(|i| if i % 2 == 0 { 0xEC } else { 0x11 }).collect(),
        3 => payload(r, 0, n, false),
        4 => payload(r, 1, n, false),
        _ => (0..n).map(|_| r.gen()).collect(),
    }
}
pub fn best_mode(p: &[u8]) -> usize {
    if p.iter().all(|b| b.is_ascii_digit()) { 0 } else if p.iter().all(|b| ALNUM.contains(b)) { 1 } else { 2 }
}

/// C10: lengths 0..8000 (every length in thorough), contents all-zero / all-0xFF / pad look-alikes / digits /
/// alphanumeric / random, all combinations of {unset, smallest, largest} per option.
pub fn total(seed: u64, thorough: bool) -> Vec<BuildSpec> {
    let mut out = Vec::new();
    let mut r = rng(seed, 6);
    let mut lens: Vec<usize> = Vec::new();
    if thorough { lens.extend(0..=8000usize); } else {
        lens.extend([0usize, 1, 2, 3, 7, 8, 15, 16, 17, 31, 32, 63, 64, 127, 128, 255, 256, 511, 512, 1023, 1024, 2047, 2048, 2952, 2953, 2954, 4095, 4096, 4296, 4297, 7088, 7089, 7090, 8000]);
        for _ in 0..220 { let top = [40usize, 300, 3000, 8000][r.gen_range(0..4)]; lens.push(r.gen_range(0..=top)); }
    }
    for (i, &n) in lens.iter().enumerate() {
        let kind = i % 6;
        let p = content(&mut r, kind, n);
        let bm = best_mode(&p);
        let ecl = [None, Some(0), Some(3), Some(1), Some(2)][(i / 6) % 5];
        let mode = match (i / 30) % 3 { 0 => None, 1 => Some(2), _ => Some(bm.max((i / 90) % 3)) };
        let version = [None, Some(1), Some(40), None, Some(1 + i % 40)][(i / 7) % 5];
        let mask = [None, Some(0), Some(7), None][(i / 11) % 4];
        let mut s = spec(p, ecl, mode, version, mask, format!("len:{kind}:{}", (i / 7) % 5));
        s.lite = !(thorough || n <= 60 || i % 16 == 0);
        out.push(s);
    }
    out.extend(longclass(seed, thorough));
    // text-level contents (valid UTF-8 by Unicode category)
    for (i, (cat, t)) in unicode_texts(seed, thorough).into_iter().enumerate() {
        let mut s = spec(t, [None, Some(0), Some(3)][i % 3], None, [None, None, Some(1), Some(40)][i % 4], None, format!("unicode:{cat}"));
        s.lite = true;
        out.push(s);
    }
    // lengths around 2^16 and far beyond, constant and mixed content
    for (i, n) in [65_535usize, 65_536, 65_537, 70_000, 100_000, 1_000_000].into_iter().enumerate() {
        let p = if i % 2 == 0 { vec![[b'7', b'A', 0xA5][i % 3]; n] } else { content(&mut r, 3 + i % 3, n) };
        let mut s = spec(p, [None, Some(0), Some(3)][i % 3], None, [None, Some(40), Some(1)][i % 3], None, format!("huge:{i}"));
        s.lite = true;
        out.push(s);
    }
    // every byte value as the only content, three lengths
    for b in 0..=255u8 {
        for (i, n) in [1usize, 17, 100].into_iter().enumerate() {
            let mut s = spec(vec![b; n], if b % 3 == 0 { Some((b as usize / 3) % 4) } else { None }, None, if i == 2 { Some(10 + b as usize % 31) } else { None }, if b % 5 == 0 { Some(b as usize % 8) } else { None }, format!("mono:{i}"));
            s.lite = true;
            out.push(s);
        }
    }
    // the empty input under every combination of {unset, smallest, largest} per option and every mode choice
    for ecl in [None, Some(0usize), Some(3)] { for version in [None, Some(1usize), Some(40)] { for mask in [None, Some(0usize), Some(7)] { for mode in [None, Some(0usize), Some(1), Some(2)] {
        let mut s = spec(vec![], ecl, mode, version, mask, format!("empty:{}", mode.map_or(9, |m| m)));
        s.lite = version == Some(40);
        out.push(s);
    } } } }
    // every combination of {unset, smallest, largest} per option on a few contents
    let mut j = 0usize;
    for ecl in [None, Some(0usize), Some(3)] {
        for version in [None, Some(1usize), Some(40)] {
            for mask in [None, Some(0usize), Some(7)] {
                for modesel in 0..3usize {
                    for kind in 0..6usize {
                        let n = [0usize, 1, 9, 17, 26, 41, 78, 1273, 1274, 2953, 3057][r.gen_range(0..11)];
                        let p = content(&mut r, kind, n);
                        let bm = best_mode(&p);
                        let mode = match modesel { 0 => None, 1 => Some(bm), _ => Some(2) };
                        let mut s = spec(p, ecl, mode, version, mask, format!("combo:{}:{}:{}:{modesel}", ecl.map_or(9, |x| x), version.unwrap_or(0), mask.map_or(9, |x| x)));
                        s.lite = !(j % 5 == 0 && (version != Some(40) || j % 25 == 0));
                        j += 1;
                        out.push(s);
                    }
                }
            }
        }
    }
    out
}

/// C02 corollary: error patterns for a symbol of (version v, level e): per block a weight in {1, t/2, t}
/// (t = floor(ec/2)), burst or spread positions, random non-zero values.  Returns [block, position, xor] triples (1-based).
pub fn error_pattern(r: &mut rand::rngs::StdRng, v: usize, e: usize, style: usize) -> Vec<[usize; 3]> {
    let nb = NUM_BLOCKS[e][v - 1];
    let ec = EC_PER_BLOCK[e][v - 1];
    let tot = total_cw(v);
    let short = nb - tot % nb;
    let t = ec / 2;
    let mut errs = Vec::new();
    for b in 1..=nb {
        let blen = tot / nb + if b > short { 1 } else { 0 };
        let w = match (style + b) % 3 { 0 => 1, 1 => (t / 2).max(1), _ => t };
        let mut pos: Vec<usize> = Vec::new();
        if (style / 3 + b) % 2 == 0 {
            let start = r.gen_range(1..=blen - w + 1);
            pos.extend(start..start + w);
        } else {
            while pos.len() < w { let p = r.gen_range(1..=blen); if !pos.contains(&p) { pos.push(p); } }
        }
        for p in pos { errs.push([b, p, r.gen_range(1..=255usize)]); }
    }
    errs
}

pub fn corrupt_specs(seed: u64, thorough: bool) -> Vec<(BuildSpec, Vec<[usize; 3]>)> {
    let mut out = Vec::new();
    let mut r = rng(seed, 7);
    let reps = if thorough { 12 } else { 1 };
    for rep in 0..reps {
        for v in 1..=40usize {
            for e in 0..4usize {
                if thorough && v > 20 && rep >= 4 { continue; }
                let mode = (v + e + rep) % 3;
                let cap = capacity(mode, e, v);
                let n = if rep % 2 == 0 { cap } else { r.gen_range(0..=cap) };
                let s = spec(payload(&mut r, mode, n, false), Some(e), Some(mode), Some(v), if rep % 3 == 0 { None } else { Some((v + rep) % 8) }, format!("corrupt:{v}:{e}"));
                let errs = error_pattern(&mut r, v, e, rep + v);
                out.push((s, errs));
            }
        }
    }
    out
}

/// C11 through the public API: the same payload under the eight forced masks, then with automatic selection (small symbols)
pub fn candgroups(seed: u64, thorough: bool) -> Vec<BuildSpec> {
    let mut out = Vec::new();
    let mut r = rng(seed, 8);
    let groups = if thorough { 400 } else { 60 };
    for (g, &v) in [33usize, 40].iter().enumerate() {
        if !thorough && g == 1 { continue; }
        let p = vec![b't'; capacity(2, 1, v)];
        for m in 0..9usize {
            let mut s = spec(p.clone(), Some(1), Some(2), Some(v), if m < 8 { Some(m) } else { None }, format!("candgroup:uniform:{v}:{m}"));
            s.grp = 6_000_000 + g as u64;
            out.push(s);
        }
    }
    for g in 0..groups {
        let v = 1 + g % 5;
        let e = (g / 5) % 4;
        let mode = (g / 20) % 3;
        let cap = capacity(mode, e, v);
        let n = r.gen_range(0..=cap);
        let p = payload(&mut r, mode, n, false);
        for m in 0..9usize {
            let mut s = spec(p.clone(), Some(e), Some(mode), Some(v), if m < 8 { Some(m) } else { None }, format!("candgroup:{v}:{e}:{m}"));
            s.grp = 5_000_000 + g as u64;
            out.push(s);
        }
    }
    out
}

/// C01 / C06: every payload length in a contiguous range, per mode, fully decoded (no gaps between the boundary lengths of `cells`)
pub fn lengths(seed: u64, thorough: bool) -> Vec<BuildSpec> {
    let mut out = Vec::new();
    let mut r = rng(seed, 9);
    let top = if thorough { 1200 } else { 260 };
    for mode in 0..3usize {
        for n in 0..=top {
            let i = n + mode;
            let ecl = [None, Some(0usize), Some(1), Some(3), Some(2)][i % 5];
            let auto_mode = i % 3 == 0;
            out.push(spec(payload(&mut r, mode, n, auto_mode), ecl, if auto_mode { None } else { Some(mode) }, None, if i % 7 == 0 { Some(i % 8) } else { None }, format!("length:{mode}")));
        }
    }
    out
}

/// C02 / C07: two data blocks of one symbol that are equal except for a small compensating difference (adjacent codewords
/// changed by (+d, -m*d), swapped, or with the same bit flipped).  This is the content class that defeats shortcuts keyed
/// by a cheap digest of a block (sum, xor, polynomial hash with a small multiplier): random payloads never produce it.
pub fn nearblocks(seed: u64, thorough: bool) -> Vec<BuildSpec> {
    let mut out = Vec::new();
    let mut r = rng(seed, 10);
    let cells: &[(usize, usize)] = if thorough { &[(6, 2), (5, 2), (8, 1), (10, 0), (15, 2), (22, 3), (9, 3), (12, 1), (27, 0), (40, 0)] } else { &[(6, 2), (5, 2), (8, 1), (10, 0), (15, 2), (22, 3)] };
    for &(v, e) in cells {
        let nb = NUM_BLOCKS[e][v - 1];
        let ec = EC_PER_BLOCK[e][v - 1];
        let tot = total_cw(v);
        let nshort = nb - tot % nb;
        if nshort < 2 { continue; }
        let blen = tot / nb - ec;                       // data codewords of a short block
        let d = data_cw(v, e);
        let h = if v <= 9 { 3usize } else { 5 };         // header nibbles in byte mode: 4-bit mode indicator + 8- or 16-bit count
        let n = d - (h + 1) / 2;                         // byte payload that leaves exactly the 4 terminator bits
        for m in [1i32, 16, 31, 33, 37, 101, 131, -1, 0, 1000, 2000] {
            for rep in 0..(if thorough { 3 } else { 1 }) {
                let base: Vec<u8> = (0..n).map(|_| r.gen()).collect();
                // nibble stream: header nibbles (placeholders), then two nibbles per byte
                let mut nib: Vec<u8> = if h == 3 { vec![4, ((n >> 4) & 15) as u8, (n & 15) as u8] } else { vec![4, ((n >> 12) & 15) as u8, ((n >> 8) & 15) as u8, ((n >> 4) & 15) as u8, (n & 15) as u8] };
                for b in &base { nib.push(b >> 4); nib.push(b & 15); }
                nib.push(0);
                let cw = |nib: &Vec<u8>, c: usize| -> i32 { ((nib[2 * c] << 4) | nib[2 * c + 1]) as i32 };
                let k = 1 + rep % (nshort - 1);           // the block that mirrors block 0
                let first_free = (h + 1) / 2;             // codewords below this index contain header bits
                // copy block 0 into block k (codewords that do not touch the header)
                for i in 0..blen {
                    let x = cw(&nib, i);                  // block k is free of header bits, so it can mirror block 0 completely
                    let c = k * blen + i;
                    nib[2 * c] = (x >> 4) as u8; nib[2 * c + 1] = (x & 15) as u8;
                }
                // the compensating difference at a position where it does not wrap
                let mut done = false;
                for _try in 0..200 {
                    let p = r.gen_range(first_free..blen - 1);
                    let (a, b) = (cw(&nib, p), cw(&nib, p + 1));
                    let (na, nb2) = match m {
                        0 => (b, a),                                            // swap two adjacent codewords
                        1000 => (a ^ 0x10, b ^ 0x10),                           // same bit flipped in both (xor preserved)
                        2000 => { let q = r.gen_range(first_free..blen); if q == p { continue; } let x = cw(&nib, q); let c2 = k * blen + q; let c1 = k * blen + p;
                                  nib[2 * c2] = (a >> 4) as u8; nib[2 * c2 + 1] = (a & 15) as u8; nib[2 * c1] = (x >> 4) as u8; nib[2 * c1 + 1] = (x & 15) as u8; done = a != x; if done { break } else { continue } }
                        _ => (a + 1, b - m),
                    };
                    if na < 0 || na > 255 || nb2 < 0 || nb2 > 255 || (na, nb2) == (a, b) { continue; }
                    let c = k * blen + p;
                    nib[2 * c] = (na >> 4) as u8; nib[2 * c + 1] = (na & 15) as u8;
                    nib[2 * c + 2] = (nb2 >> 4) as u8; nib[2 * c + 3] = (nb2 & 15) as u8;
                    done = true;
                    break;
                }
                if !done { continue; }
                let bytes: Vec<u8> = (0..n).map(|j| (nib[h + 2 * j] << 4) | nib[h + 2 * j + 1]).collect();
                out.push(spec(bytes, Some(e), Some(2), Some(v), Some((v + rep) % 8), format!("nearblock:{v}:{e}:{m}")));
            }
        }
    }
    out.extend(shapedblocks(seed, thorough));
    out
}

/// C02 / C07: data blocks SHAPED at the codeword level.  In byte mode at full capacity every data codeword after the header is under
/// the payload's control (a 4-bit shift), so whole blocks can be given a shape: the padding alternation EC 11 (either phase) - exact, or
/// with its first / middle / last codeword changed -, all zero, all 0xFF, a copy of another block, another block reversed or rotated.
/// Pairs of such shapes are placed in two blocks (short and long ones) of cells with diverse block geometry.  Shortcuts that recognise
/// 'a block I have seen' or 'a padding block' by an incomplete test are exposed by exactly these contents.
/// GF(256) (x^8 + x^4 + x^3 + x^2 + 1, alpha = 2) and the division register of a Reed-Solomon encoder of degree `ec`.  Used ONLY to shape
/// inputs (blocks whose division passes through chosen intermediate values); nothing here judges an output.
struct Lfsr { exp: [u8; 512], log: [u8; 256], gen: Vec<u8> }
impl Lfsr {
    fn new(ec: usize) -> Lfsr {
        let (mut exp, mut log) = ([0u8; 512], [0u8; 256]);
        let mut x: u16 = 1;
        for i in 0..255usize { exp[i] = x as u8; log[x as usize] = i as u8; x <<= 1; if x & 0x100 != 0 { x ^= 0x11D; } }
        for i in 255..512usize { exp[i] = exp[i - 255]; }
        let mul = |a: u8, b: u8| -> u8 { if a == 0 || b == 0 { 0 } else { exp[log[a as usize] as usize + log[b as usize] as usize] } };
        let mut gen: Vec<u8> = vec![1];                                 // highest coefficient first
        for i in 0..ec { let root = exp[i]; let mut next = vec![0u8; gen.len() + 1]; for (k, &c) in gen.iter().enumerate() { next[k] ^= c; next[k + 1] ^= mul(c, root); } gen = next; }
        Lfsr { exp, log, gen }
    }
    fn mul(&self, a: u8, b: u8) -> u8 { if a == 0 || b == 0 { 0 } else { self.exp[self.log[a as usize] as usize + self.log[b as usize] as usize] } }
    /// register after feeding `data` (the remainder of data * x^ec so far)
    fn feed(&self, reg: &mut Vec<u8>, d: u8) { let f = d ^ reg[0]; reg.remove(0); reg.push(0); if f != 0 { for k in 0..reg.len() { reg[k] ^= self.mul(self.gen[k + 1], f); } } }
}

pub fn shapedblocks(seed: u64, thorough: bool) -> Vec<BuildSpec> {
    let mut out = Vec::new();
    let mut r = rng(seed, 17);
    let cells: &[(usize, usize)] = if thorough { &[(7, 2), (5, 2), (5, 3), (6, 1), (8, 1), (9, 2), (10, 0), (13, 3), (15, 2), (22, 3), (27, 0)] } else { &[(7, 2), (5, 3), (8, 1), (10, 0), (13, 3)] };
    for &(v, e) in cells {
        let nb = NUM_BLOCKS[e][v - 1];
        let ec = EC_PER_BLOCK[e][v - 1];
        let tot = total_cw(v);
        let nshort = nb - tot % nb;
        let slen = tot / nb - ec;                                   // data codewords of a short block; long blocks have one more
        let d = data_cw(v, e);
        let h = if v <= 9 { 3usize } else { 5 };
        let n = d - (h + 1) / 2;
        if nb < 3 { continue; }
        let start = |b: usize| if b < nshort { b * slen } else { nshort * slen + (b - nshort) * (slen + 1) };
        let len = |b: usize| if b < nshort { slen } else { slen + 1 };
        let lf = Lfsr::new(ec);
        let shape = |r: &mut rand::rngs::StdRng, kind: usize, l: usize, other: &[u8]| -> Vec<u8> {
            let alt = |phase: usize| -> Vec<u8> { (0..l).map(|i| if (i + phase) % 2 == 0 { 0xEC } else { 0x11 }).collect() };
            match kind {
                0 => alt(0), 1 => alt(1),
                2 => { let mut x = alt(0); x[l - 1] = r.gen(); x }, 3 => { let mut x = alt(1); x[l - 1] ^= 0xFD; x },
                4 => { let mut x = alt(0); x[0] = r.gen(); x }, 5 => { let mut x = alt(0); x[l / 2] ^= 1; x },
                6 => vec![0u8; l], 7 => vec![0xFF; l],
                8 => other.iter().cloned().chain(std::iter::repeat(0x55)).take(l).collect(),                        // copy (padded / cut to this block's length)
                9 => other.iter().rev().cloned().chain(std::iter::repeat(0xAA)).take(l).collect(),                  // reversed
                10 => { let mut x: Vec<u8> = other.iter().cloned().chain(std::iter::repeat(0x33)).take(l).collect(); x.rotate_left(1); x },
                11 => { let mut x: Vec<u8> = other.iter().cloned().chain(std::iter::repeat(0xEC)).take(l).collect(); x[l - 1] = x[l - 1].wrapping_add(1); x },     // copy with the last codeword changed
                // the division of this block passes through a RUN OF ZERO leading coefficients: each codeword of the run equals the leading
                // byte of the division register at that step (at the end of the block: 1, 4 or 8 steps; in the middle: 4 steps)
                _ => {
                    let (run, at_end) = match kind { 12 => (1usize, true), 13 => (4, true), 14 => (8, true), _ => (4, false) };
                    let mut x: Vec<u8> = (0..l).map(|_| r.gen()).collect();
                    if l > run + 2 {
                        let start = if at_end { l - run } else { (l - run) / 2 };
                        let mut reg = vec![0u8; ec];
                        for i in 0..start { lf.feed(&mut reg, x[i]); }
                        for i in start..start + run { x[i] = reg[0]; lf.feed(&mut reg, x[i]); }
                    }
                    x
                }
            }
        };
        let pairs: Vec<(usize, usize)> = (0..16usize).flat_map(|a| (0..16usize).map(move |b| (a, b))).filter(|(a, b)| (a * 5 + b * 3) % (if thorough { 2 } else { 5 }) == (seed % 2) as usize || (*a < 2 && (2..6).contains(b)) || (*a >= 12 && *b >= 12 && (a + b) % 2 == 0)).collect();
        for (pi, (ka, kb)) in pairs.into_iter().enumerate() {
            // two blocks other than block 0 (which holds the header): both short, both long, or one of each
            let cands: Vec<usize> = (1..nb).collect();
            let ba = cands[(pi * 7) % cands.len()];
            let bb = cands[(pi * 7 + 1 + pi % (cands.len() - 1)) % cands.len()];
            if ba == bb { continue; }
            let mut cw: Vec<u8> = (0..d).map(|_| r.gen()).collect();
            let sa = shape(&mut r, ka, len(ba), &[]);
            cw[start(ba)..start(ba) + len(ba)].copy_from_slice(&sa);
            let sb = shape(&mut r, kb, len(bb), &sa);
            cw[start(bb)..start(bb) + len(bb)].copy_from_slice(&sb);
            // codewords -> nibbles -> payload bytes (the header nibbles and the final terminator nibble are not ours)
            let mut nib: Vec<u8> = cw.iter().flat_map(|c| [c >> 4, c & 15]).collect();
            nib[2 * d - 1] = 0;
            let bytes: Vec<u8> = (0..n).map(|j| (nib[h + 2 * j] << 4) | nib[h + 2 * j + 1]).collect();
            out.push(spec(bytes, Some(e), Some(2), Some(v), Some(pi % 8), format!("shapedblock:{v}:{e}:{ka}:{kb}")));
        }
    }
    out
}

/// C01 / C06 / C02: structured contents that random payloads practically never produce: long runs of one character, digit groups
/// 000 / 999, the pad pattern inside the data, trailing spaces, long runs of '/', repeated records, counters
pub fn structured(seed: u64, thorough: bool) -> Vec<BuildSpec> {
    let mut out = Vec::new();
    let mut r = rng(seed, 11);
    let mut texts: Vec<Vec<u8>> = Vec::new();
    for n in [3usize, 8, 17, 40, 100, 300, 999, 2000] {
        for c in [b'0', b'9', b'7', b'A', b'Z', b' ', b'/', b':', b'a', 0u8, 0xFF, 0xEC, 0x11, b'%'] { texts.push(vec![c; n]); }
        texts.push((0..n).map(|i| if i % 2 == 0 { 0xEC } else { 0x11 }).collect());
        texts.push((0..n).map(|i| b"000999"[i % 6]).collect());
        texts.push((0..n).map(|i| b"0123456789"[i % 10]).collect());
        texts.push((0..n).map(|i| ALNUM[i % 45]).collect());
        texts.push((0..n).map(|i| (i % 256) as u8).collect());
        texts.push(format!("https://example.com/{}", "/".repeat(n)).into_bytes());
        texts.push(format!("{}{}", "HELLO WORLD", " ".repeat(n)).into_bytes());
        texts.push(format!("{}{}", "x".repeat(n), "\u{ec}\u{11}").into_bytes());
        let rec: Vec<u8> = b"item=ab;qty=00042;\n".to_vec();
        texts.push(rec.iter().cycle().take(n).cloned().collect());
        texts.push((0..n).flat_map(|i| format!("{:03}", (i * 37) % 1000).into_bytes()).take(n).collect());
    }
    if !thorough { let keep: Vec<Vec<u8>> = texts.iter().enumerate().filter(|(i, _)| i % 2 == 0 || i % 7 == 0).map(|(_, t)| t.clone()).collect(); texts = keep; }
    for (i, t) in texts.into_iter().enumerate() {
        let ecl = [None, Some(0usize), Some(2), Some(3)][i % 4];
        let mask = if i % 3 == 0 { Some(i % 8) } else { None };
        out.push(spec(t.clone(), ecl, None, None, mask, format!("structured:{}", i % 10)));
        if i % 5 == 0 { out.push(spec(t, ecl, Some(2), None, mask, format!("structured-byte:{}", i % 10))); }
    }
    // what users actually encode: URLs, contact cards, WiFi strings, multi-byte UTF-8, trailing line ends, leading zeros, and
    // periodic data whose period matches the mask periods (2, 3, 6, 12 bits or bytes) or the symbol width in bytes
    let mut real: Vec<Vec<u8>> = vec![
        b"https://example.com".to_vec(), b"HTTPS://EXAMPLE.COM/PATH?A=1&B=2".to_vec(), b"http://xn--bcher-kva.example/%F0%9F%9A%80?q=a+b#frag".to_vec(),
        b"WIFI:T:WPA;S:my network;P:p@ss;w0rd\\;;H:false;;".to_vec(), b"mailto:someone@example.org?subject=Hi%20there".to_vec(), b"tel:+33123456789".to_vec(),
        b"BEGIN:VCARD\r\nVERSION:3.0\r\nN:Doe;John;;;\r\nFN:John Doe\r\nTEL;TYPE=CELL:+1 555 0100\r\nEMAIL:john@example.com\r\nEND:VCARD\r\n".to_vec(),
        "Grüße aus Köln — こんにちは世界 — Привет — 🚀🎉".as_bytes().to_vec(), "é".repeat(40).into_bytes(), "\u{feff}BOM first".as_bytes().to_vec(),
        b"line one\nline two\n".to_vec(), b"trailing newline\n".to_vec(), b"12345\n".to_vec(), b"HELLO\n".to_vec(), b" leading and trailing space ".to_vec(),
        b"0000000000000000".to_vec(), b"0".to_vec(), b"00".to_vec(), b"000".to_vec(), b"0001".to_vec(), b"00000000000000000000000000000001".to_vec(), b"0123456789012345678901234567890".to_vec(),
        b"bitcoin:1A1zP1eP5QGefi2DMPTfTL5SLmv7DivfNa?amount=0.001".to_vec(), b"otpauth://totp/Example:alice@google.com?secret=JBSWY3DPEHPK3PXP&issuer=Example".to_vec(),
        b"{\"id\":12345,\"ok\":true,\"items\":[1,2,3]}".to_vec(), b"\x00\x01\x02binary\xff\xfe\xfd".to_vec(), b"A".to_vec(), b"a".to_vec(), b" ".to_vec(), b"%".to_vec(),
    ];
    for (period, unit) in [(2usize, 1usize), (3, 1), (6, 1), (12, 1), (2, 8), (3, 8), (6, 8), (12, 8), (21, 8), (25, 8), (29, 8), (177, 8)] {
        for n in [60usize, 400, 1800] {
            // `unit` = 8: the period is counted in bytes; 1: in bits
            let bits: Vec<bool> = (0..n * 8).map(|i| ((i / unit) % period) == 0 || (period > 3 && ((i / unit) % period) == 2)).collect();
            real.push((0..n).map(|j| (0..8).fold(0u8, |a, b| (a << 1) | bits[j * 8 + b] as u8)).collect());
        }
    }
    if !thorough { let keep: Vec<Vec<u8>> = real.iter().enumerate().filter(|(i, _)| i % 3 == (seed % 3) as usize || *i < 30).map(|(_, t)| t.clone()).collect(); real = keep; }
    for (i, t) in real.into_iter().enumerate() {
        let ecl = [None, Some(1usize), Some(3), Some(0)][i % 4];
        out.push(spec(t.clone(), ecl, None, None, if i % 4 == 1 { Some(i % 8) } else { None }, format!("real:{}", i % 10)));
        if i % 6 == 0 { out.push(spec(t, ecl, Some(2), None, None, format!("real-byte:{}", i % 10))); }
    }
    // every group the two packed modes can form: all 1000 digit triples and all 2025 alphanumeric pairs, at every alignment
    // (one or two leading characters shift the grouping), plus every final incomplete group (1 or 2 digits, 1 alphanumeric)
    let triples: Vec<u8> = (0..1000usize).flat_map(|t| format!("{:03}", (t * 7) % 1000).into_bytes()).collect();
    let pairs: Vec<u8> = (0..2025usize).flat_map(|p| { let q = (p * 13) % 2025; [ALNUM[q / 45], ALNUM[q % 45]] }).collect();
    for shift in 0..3usize {
        let mut t: Vec<u8> = b"58"[..shift].to_vec(); t.extend_from_slice(&triples);
        out.push(spec(t, Some(0), None, None, Some(shift), format!("allgroups:num{shift}")));
        if shift < 2 {
            let mut a: Vec<u8> = b"K"[..shift].to_vec(); a.extend_from_slice(&pairs);
            out.push(spec(a, Some(0), None, None, None, format!("allgroups:alnum{shift}")));
        }
    }
    let ends: Vec<Vec<u8>> = (0..100usize).map(|d| format!("123{:02}", d).into_bytes()).chain((0..10usize).map(|d| format!("123{d}").into_bytes()))
        .chain((0..45usize).map(|c| vec![b'A', b'B', ALNUM[c]])).collect();
    for (i, e) in ends.into_iter().enumerate() {
        if !thorough && i % 3 != (seed % 3) as usize { continue; }
        out.push(spec(e, Some(i % 4), None, None, None, "allgroups:tail".to_string()));
    }
    let _ = &mut r;
    out
}

/// Inputs whose LENGTH is near a power-of-two boundary of the integer types a length computation may pass through
/// (8, 10 and 11 bits per character times the length crossing 2^32; 2^31; 2^32 itself): far beyond any capacity, the documented
/// outcome is the data-too-big error.  Built without any copy of the input (one allocation, moved into the builder); the event
/// carries a saturated representative (the expected outcome depends on the length only through "beyond every capacity") and the
/// true length as text.
pub fn giant(sink: &mut Sink, thorough: bool) {
    let mut lens: Vec<(u64, u8)> = vec![(390_451_573, b'7'), (429_496_730, b'A'), (536_870_912, 0xA5)];
    if thorough { lens.extend_from_slice(&[(357_913_942, b'7'), (1_431_655_766, b'7'), (2_147_483_648, b'Z'), (4_294_967_301, b'7'), (4_294_967_296 + 7_000, 0x41)]); }
    for (i, (n, byte)) in lens.into_iter().enumerate() {
        let Ok(n) = usize::try_from(n) else { continue };
        for forced in 0..2usize {
            if forced == 1 && i % 2 == 1 { continue; }
            let (ecl, ver, mode) = if forced == 1 { (Some(0usize), Some(40usize), Some(2usize)) } else { (None, None, None) };
            let out = guarded(300, move || {
                let mut b = fast_qr::QRBuilder::new(vec![byte; n]);
                if let Some(e) = ecl { b.ecl(LEVELS[e]); }
                if let Some(v) = ver { b.version(version(v)); }
                if let Some(m) = mode { b.mode(MODES[m]); }
                match b.build() { Ok(qr) => { let mut o = qr_json(&qr); if let Some(m) = o.as_object_mut() { m.remove("vals"); m.remove("types"); } o }, Err(e) => json!({"kind": "Err", "why": err_name(&e)}) }
            }).unwrap_or_else(|k| json!({"kind": k.split(':').next().unwrap_or("Panic"), "why": k}));
            let id = sink.id();
            sink.emit(&json!({"ev": "Build", "id": id, "tag": format!("giant:{i}"), "grp": 0, "lite": 1, "input": [], "rep": [byte, 1_000_000], "true_len": n.to_string(),
                "opts": {"ecl": ecl.map(|e| LEVEL_NAMES[e]).unwrap_or("none"), "mode": mode.map(|m| m as i64).unwrap_or(-1), "version": ver.map(|v| v as i64).unwrap_or(-1), "mask": -1}, "out": out}));
        }
    }
}

/// Inputs kept by the coverage-guided fuzzer (fuzz/fuzz_targets/qrbuild.rs): two option bytes, then the content - decoded exactly as the
/// fuzz target decodes them.  Each becomes an ordinary, fully judged build.
pub fn discovered(corpus: &str) -> Vec<BuildSpec> {
    let mut names: Vec<_> = std::fs::read_dir(corpus).map(|d| d.filter_map(|e| e.ok()).map(|e| e.path()).collect::<Vec<_>>()).unwrap_or_default();
    names.sort();
    let mut out = Vec::new();
    for p in names {
        let Ok(data) = std::fs::read(&p) else { continue };
        if data.len() < 2 { continue; }
        let (o1, o2) = (data[0], data[1]);
        let ecl = match o1 % 5 { 0 => None, k => Some(k as usize - 1) };
        let mode = match (o1 / 5) % 4 { 0 => None, k => Some(k as usize - 1) };
        let version = if o2 % 4 == 1 { Some([1usize, 2, 5, 9][(o2 as usize / 4) % 4]) } else { None };
        let mask = if o2 % 4 == 2 { Some((o2 as usize / 4) % 8) } else { None };
        out.push(spec(data[2..].to_vec(), ecl, mode, version, mask, format!("discovered:{}", mode.map_or(9, |m| m))));
    }
    out
}

/// Long strings of one class with ONE character of another class late in the string (at the capacities of the larger versions, where
/// 'longer than the other mode can hold' arguments live): the mode is decided by every byte, wherever it is.
pub fn longclass(seed: u64, thorough: bool) -> Vec<BuildSpec> {
    let mut out = Vec::new();
    for (base, odd, lens) in [(0usize, b'A', vec![2953usize, 2954, 3993, 4296, 4297, 5000, 5596, 5597, 7089]), (0, b'\n', vec![2331, 2953, 2954, 4296, 4297, 5596, 7089]), (1, b'a', vec![1273, 2953, 2954, 3391, 4296]), (1, b',', vec![1663, 2953, 4296])] {
        for &len in &lens {
            let mut positions: Vec<usize> = vec![0, 1, len / 2, len - 2, len - 1, 255, 256, 1023, 1024, 2047, 2048, 4095, 4096, 4295, 4296, 4297];
            if thorough { positions.extend((0..len).step_by(61)); }
            positions.retain(|&p| p < len); positions.sort(); positions.dedup();
            for (pi, &pos) in positions.iter().enumerate() {
                if !thorough && pi % 3 != (seed as usize + len) % 3 && pos + 2 < len { continue; }
                let mut p = vec![if base == 0 { b'0' + ((pos + len) % 10) as u8 } else { ALNUM[10 + (pos + len) % 35] }; len];
                p[pos] = odd;
                for e in [Some(0usize), Some(1), None] {
                    if !thorough && e == Some(1) && pi % 2 == 0 { continue; }
                    let mut s = spec(p.clone(), e, None, None, Some(0), format!("longclass:{base}:{len}"));
                    s.lite = true;
                    out.push(s);
                }
            }
        }
    }
    out
}
