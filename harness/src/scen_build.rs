//! Build scenarios: lists of option/payload combinations driven through the public QRBuilder API.
use crate::common::BuildSpec;
use crate::gen::*;
use rand::Rng;

fn spec(input: Vec<u8>, ecl: Option<usize>, mode: Option<usize>, version: Option<usize>, mask: Option<usize>, tag: String) -> BuildSpec {
    BuildSpec { input, ecl, mode, version, mask, grp: 0, tag }
}

/// All 160 (version, level) cells, several boundary lengths each, modes and forced masks rotating so that
/// every (level, mask) pair and every version sees forced and automatic masks.  `reps` payload sets per cell.
pub fn cells(seed: u64, reps: usize, vmax_full: usize) -> Vec<BuildSpec> {
    let mut out = Vec::new();
    let mut r = rng(seed, 1);
    for rep in 0..reps {
        for v in 1..=40usize {
            for e in 0..4usize {
                let k = v * 4 + e + rep * 7;
                let (m1, m2, m3) = (k % 3, (k + 1) % 3, (k + 2) % 3);
                let tag = |s: &str| format!("cell:{v}:{e}:{s}");
                // full capacity, automatic mask and version
                let cap1 = capacity(m1, e, v);
                out.push(spec(payload(&mut r, m1, cap1, false), Some(e), Some(m1), None, None, tag("cap")));
                // smallest length that needs this version, forced mask
                let lo2 = if v == 1 { 1 } else { capacity(m2, e, v - 1) + 1 };
                out.push(spec(payload(&mut r, m2, lo2, false), Some(e), Some(m2), None, Some((k + e) % 8), tag("lo")));
                // empty / one character in a forced version
                out.push(spec(payload(&mut r, m3, (k / 3) % 2, false), Some(e), Some(m3), Some(v), Some((k + 3) % 8), tag("tiny")));
                if v <= vmax_full || (v + e + rep) % 4 == 0 {
                    // automatic mode, one short of capacity
                    let cap = capacity(m1, e, v);
                    if cap >= 1 { out.push(spec(payload(&mut r, m1, cap - 1, true), Some(e), None, Some(v), None, tag("auto"))); }
                    // half capacity, forced mask
                    let cap2 = capacity(m2, e, v);
                    out.push(spec(payload(&mut r, m2, cap2 / 2, false), Some(e), Some(m2), Some(v), Some((k + 5) % 8), tag("half")));
                }
                if e == 2 {
                    // nothing forced at all: default level must be Q
                    let cap = capacity(m3, 2, v);
                    let lo = if v == 1 { 0 } else { capacity(m3, 2, v - 1) + 1 };
                    let n = r.gen_range(lo..=cap);
                    out.push(spec(payload(&mut r, m3, n, true), None, None, None, None, tag("default")));
                }
            }
        }
    }
    out
}
