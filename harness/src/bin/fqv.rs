use fqv::common::*;
use fqv::scen_build;
#[cfg(feature = "hooks")]
use fqv::scen_hook;
use serde_json::json;

fn arg(args: &[String], name: &str, default: &str) -> String {
    args.iter().position(|a| a == name).and_then(|i| args.get(i + 1)).cloned().unwrap_or_else(|| default.to_string())
}

fn main() {
    let args: Vec<String> = std::env::args().collect();
    if args.len() < 2 { eprintln!("usage: fqv <scenario> [--seed N] [--tier quick|thorough] [--out FILE]"); std::process::exit(2); }
    let seed: u64 = arg(&args, "--seed", "1").parse().unwrap_or(1);
    let tier = arg(&args, "--tier", "quick");
    let thorough = tier == "thorough";
    let mut sink = Sink::new(&arg(&args, "--out", "-"));
    quiet_panics();
    match args[1].as_str() {
        "cells" => for s in &scen_build::cells(seed, if thorough { 4 } else { 1 }, if thorough { 40 } else { 12 }) { sink.build(s); },
        "formats" => for s in &scen_build::formats(seed, thorough) { sink.build(s); },
        "thresholds" => for s in &scen_build::thresholds(seed, thorough) { sink.build(s); },
        "maskgroups" => for s in &scen_build::maskgroups(seed, thorough) { sink.build(s); },
        "candgroups" => for s in &scen_build::candgroups(seed, thorough) { let o = run_build(s); let id = sink.id(); let mut ev = build_event(id, s, &o); ev["pen"] = json!(1); sink.emit(&ev); },
        "lengths" => for s in &scen_build::lengths(seed, thorough) { sink.build(s); },
        "nearblocks" => for s in &scen_build::nearblocks(seed, thorough) { sink.build(s); },
        "structured" => for s in &scen_build::structured(seed, thorough) { sink.build(s); },
        "modes" => for s in &scen_build::modes(seed, thorough) { sink.build(s); },
        "total" => { for s in &scen_build::total(seed, thorough) { sink.build(s); } scen_build::giant(&mut sink, thorough); },
        "discovered" => for s in &scen_build::discovered(&arg(&args, "--corpus", "")) { sink.build(s); },
        #[cfg(feature = "svg")]
        "svgdiscovered" => fqv::scen_render::svg_discovered(&mut sink, seed, &arg(&args, "--corpus", "")),
        #[cfg(feature = "diffsel")]
        "diffbuild" => fqv::scen_diff::diffbuild(&mut sink, seed, thorough),
        #[cfg(all(feature = "diffsel", feature = "hooks"))]
        "diffwasm" => fqv::scen_diff::diffwasm(&mut sink, seed, thorough),
        #[cfg(feature = "diffsel")]
        "diffrender" => fqv::scen_diff::diffrender(&mut sink, seed, thorough),
        "giant" => scen_build::giant(&mut sink, thorough),
        "corrupt" => for (s, errs) in &scen_build::corrupt_specs(seed, thorough) {
            let o = run_build(s);
            let id = sink.id();
            let mut ev = build_event(id, s, &o);
            ev["ev"] = json!("Corrupt");
            ev["errors"] = json!(errs);
            sink.emit(&ev);
        },
        "text" => fqv::scen_text::text(&mut sink, seed, thorough),
        #[cfg(feature = "svg")]
        "svg" => fqv::scen_render::svg(&mut sink, seed, thorough),
        #[cfg(feature = "svg")]
        "frames" => fqv::scen_render::frames(&mut sink, seed, thorough),
        "histories" => fqv::scen_hist::histories(&mut sink, &arg(&args, "--replay-in", ""), arg(&args, "--grp0", "0").parse().unwrap_or(0), arg(&args, "--mapping", "") == "rejected"),
        "aftermath" => fqv::scen_hist::aftermath(&mut sink, seed, thorough, 2_000_000),
        "walk" => fqv::scen_hist::walk(&mut sink, seed, thorough, 3_000_000),
        #[cfg(feature = "image")]
        "soak" => fqv::scen_hist::soak(&mut sink, seed, thorough),
        #[cfg(feature = "image")]
        "threads" => fqv::scen_hist::threads(&mut sink, seed, thorough, 1_000_000),
        #[cfg(feature = "image")]
        "fileio" => fqv::scen_file::fileio(&mut sink, seed, thorough, &arg(&args, "--replay-in", "")),
        #[cfg(feature = "image")]
        "fileconc" => fqv::scen_file::fileconc(&mut sink, seed, thorough, &arg(&args, "--replay-in", "")),
        #[cfg(feature = "svg")]
        "sessions" => fqv::scen_render::sessions(&mut sink, seed, thorough, &arg(&args, "--alphabet", ""), &arg(&args, "--replay-in", "")),
        #[cfg(feature = "svg")]
        "callbacks" => fqv::scen_render::callbacks(&mut sink, seed, thorough),
        #[cfg(feature = "image")]
        "conv" => fqv::scen_render::conv(&mut sink, seed, thorough),
        #[cfg(feature = "image")]
        "rasterframes" => fqv::scen_render::rasterframes(&mut sink, seed, thorough),
        #[cfg(feature = "image")]
        "raster" => fqv::scen_render::raster(&mut sink, seed, thorough),
        #[cfg(any(feature = "hooks", feature = "wasmonly"))]
        "wasm" => fqv::scen_wasm::wasm(&mut sink, seed, thorough, &arg(&args, "--alphabet", ""), &arg(&args, "--replay-in", "")),
        #[cfg(feature = "hooks")]
        "versionget" => scen_hook::versionget(&mut sink),
        #[cfg(feature = "hooks")]
        "encode" => scen_hook::encode(&mut sink, seed, thorough),
        #[cfg(feature = "hooks")]
        "tiewalk" => scen_hook::tiewalk(&mut sink, seed, thorough),
        #[cfg(feature = "hooks")]
        "birthday" => scen_hook::birthday(&mut sink, seed, thorough),
        #[cfg(feature = "hooks")]
        "rs" => scen_hook::rs(&mut sink, seed, thorough),
        #[cfg(feature = "hooks")]
        "tables" => scen_hook::tables(&mut sink),
        #[cfg(feature = "hooks")]
        "maskop" => scen_hook::maskop(&mut sink, seed, thorough),
        #[cfg(feature = "hooks")]
        "bestmode" => scen_hook::bestmode(&mut sink, seed, thorough),
        #[cfg(feature = "hooks")]
        "candidates" => scen_hook::candidates(&mut sink, seed, thorough, &arg(&args, "--corpus", "")),
        #[cfg(feature = "hooks")]
        "compact" => scen_hook::compact(&mut sink, seed, thorough),
        other => { eprintln!("unknown scenario {other}"); std::process::exit(2); }
    }
    use std::io::Write;
    sink.out.flush().unwrap();
}
