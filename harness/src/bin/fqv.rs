use fqv::common::*;
use fqv::scen_build;

fn arg(args: &[String], name: &str, default: &str) -> String {
    args.iter().position(|a| a == name).and_then(|i| args.get(i + 1)).cloned().unwrap_or_else(|| default.to_string())
}

fn main() {
    let args: Vec<String> = std::env::args().collect();
    if args.len() < 2 { eprintln!("usage: fqv <scenario> [--seed N] [--tier quick|thorough] [--out FILE]"); std::process::exit(2); }
    let seed: u64 = arg(&args, "--seed", "1").parse().unwrap_or(1);
    let tier = arg(&args, "--tier", "quick");
    let thorough = tier == "thorough";
    let mut sink = Sink::new(&arg(&args, "--out", "-"));
    quiet_panics();
    match args[1].as_str() {
        "cells" => {
            let specs = scen_build::cells(seed, if thorough { 4 } else { 1 }, if thorough { 40 } else { 12 });
            for s in &specs { sink.build(s); }
        }
        other => { eprintln!("unknown scenario {other}"); std::process::exit(2); }
    }
    use std::io::Write;
    sink.out.flush().unwrap();
}
