//! The part of the renderer scenarios that needs no renderer feature of the crate: symbols for the renderers, hand-made symbols,
//! and the terminal text (QRCode::to_str / print exist in every feature set).
use crate::common::*;
use crate::gen::*;
use fast_qr::QRCode;
use rand::Rng;
use serde_json::{json, Value};

pub fn cps(s: &str) -> Vec<u32> { s.chars().map(|c| c as u32).collect() }

/// A QR code of a given version for the render scenarios (payload irrelevant to the renderers)
pub fn qr_of(v: usize, seed: u64) -> QRCode { qr_of_level(v, v % 4, seed) }
/// The same at a given error-correction level (the renderers are handed the whole QRCode, fields included)
pub fn qr_of_level(v: usize, e: usize, seed: u64) -> QRCode {
    let mut r = rng(seed, 100 + v as u64);
    let cap = capacity(2, e, v);
    let lo = if v == 1 { 1 } else { capacity(2, e, v - 1) + 1 };
    let n = r.gen_range(lo..=cap);
    let spec = BuildSpec { input: payload(&mut r, 2, n, true), ecl: Some(e), mode: None, version: Some(v), mask: None, grp: 0, tag: String::new(), lite: false };
    // a build that panics or fails here is C10's business (the build scenarios report it); the render scenarios then go on with
    // an all-light symbol of the right size and say so on stderr, instead of taking the whole driver down
    match run_build(&spec) {
        Outcome::Ok(qr) => *qr,
        _ => { eprintln!("render scenario: could not build a version {v} symbol; using a blank one"); QRCode::default(17 + 4 * v) }
    }
}
/// A hand-made QR code object (public fields): valid side, arbitrary module values -- the renderers take any &QRCode
pub fn synthetic(v: usize, kind: usize, seed: u64) -> QRCode {
    use fast_qr::Module;
    let n = 17 + 4 * v;
    let mut q = QRCode::default(n);
    let mut r = rng(seed, 300 + (v * 10 + kind) as u64);
    for y in 0..n { for x in 0..n {
        let dark = match kind { 0 => true, 1 => false, 2 => (x + y) % 2 == 0, 3 => y % 2 == 0, 4 => x == 0 || y == 0 || x == n - 1 || y == n - 1, _ => r.gen_range(0..3) == 0 };
        q.data[y * n + x] = Module::data(dark);
    } }
    q
}
pub fn vals_of(qr: &QRCode) -> Vec<Vec<u32>> { pack_matrix(&qr_modules(qr), qr.size).0 }

// ------------------------------------------------------------------ text (C16)
/// What `QRCode::print` writes to the process' standard output (fd 1 redirected to a scratch file for the duration of the call)
fn captured_print(qr: &QRCode) -> Option<String> {
    use std::io::Write;
    use std::os::unix::io::AsRawFd;
    struct Restore(i32);
    impl Drop for Restore { fn drop(&mut self) { let _ = std::io::stdout().flush(); unsafe { libc::dup2(self.0, 1); libc::close(self.0); } } }
    let base = std::env::var("FQV_SCRATCH").map(std::path::PathBuf::from).unwrap_or_else(|_| std::env::temp_dir());
    let path = base.join(format!("fqv_stdout_{}.txt", std::process::id()));
    let f = std::fs::File::create(&path).ok()?;
    let _ = std::io::stdout().flush();
    {
        let saved = unsafe { libc::dup(1) };
        if saved < 0 { return None; }
        let _restore = Restore(saved);
        unsafe { libc::dup2(f.as_raw_fd(), 1); }
        qr.print();
    }
    let out = std::fs::read_to_string(&path).ok();
    let _ = std::fs::remove_file(&path);
    out
}
/// The same with standard output bound to a TERMINAL (a fresh pseudo-terminal in raw mode, drained by a reader thread): what
/// `QRCode::print` shows a user who looks at it.  None when the system hands out no pseudo-terminal.
fn captured_print_tty(qr: &QRCode) -> Option<String> {
    use std::io::{Read, Write};
    use std::os::unix::io::FromRawFd;
    struct Restore(i32);
    impl Drop for Restore { fn drop(&mut self) { let _ = std::io::stdout().flush(); unsafe { libc::dup2(self.0, 1); libc::close(self.0); } } }
    unsafe {
        let master = libc::posix_openpt(libc::O_RDWR | libc::O_NOCTTY);
        if master < 0 { return None; }
        if libc::grantpt(master) != 0 || libc::unlockpt(master) != 0 { libc::close(master); return None; }
        let mut name = [0 as libc::c_char; 128];
        if libc::ptsname_r(master, name.as_mut_ptr(), name.len()) != 0 { libc::close(master); return None; }
        let slave = libc::open(name.as_ptr(), libc::O_RDWR | libc::O_NOCTTY);
        if slave < 0 { libc::close(master); return None; }
        let mut tio: libc::termios = std::mem::zeroed();
        if libc::tcgetattr(slave, &mut tio) == 0 { libc::cfmakeraw(&mut tio); libc::tcsetattr(slave, libc::TCSANOW, &tio); }
        let mut mfile = std::fs::File::from_raw_fd(master);
        let reader = std::thread::spawn(move || { let mut out = Vec::new(); let mut buf = [0u8; 4096]; loop { match mfile.read(&mut buf) { Ok(0) | Err(_) => break, Ok(n) => out.extend_from_slice(&buf[..n]) } } out });
        let _ = std::io::stdout().flush();
        {
            let saved = libc::dup(1);
            if saved < 0 { libc::close(slave); return None; }
            let _restore = Restore(saved);
            libc::dup2(slave, 1);
            qr.print();
        }
        libc::close(slave);                       // last descriptor of the slave side: the reader sees the end
        let bytes = reader.join().ok()?;
        String::from_utf8(bytes).ok()
    }
}
pub fn text_event(id: u64, tag: &str, qr: &QRCode) -> Value {
    let q = qr.clone();
    match guarded(30, move || { let s = q.to_str(); let p = captured_print(&q); let t = captured_print_tty(&q); (s, p, t) }) {
        Ok((s, p, t)) => {
            let lines: Vec<Vec<u32>> = s.split('\n').map(cps).collect();
            let printed: Vec<Vec<u32>> = p.unwrap_or_else(|| "\u{0}capture failed".into()).split('\n').map(cps).collect();
            let mut ev = json!({"ev": "Text", "id": id, "tag": tag, "size": qr.size, "vals": vals_of(qr), "kind": "Ok", "lines": lines, "printed": printed});
            if let Some(t) = t { ev["printed_tty"] = json!(t.split('\n').map(cps).collect::<Vec<_>>()); }
            ev
        }
        Err(k) => json!({"ev": "Text", "id": id, "tag": tag, "size": qr.size, "vals": vals_of(qr), "kind": k, "lines": []}),
    }
}
pub fn text(sink: &mut Sink, seed: u64, thorough: bool) {
    for v in 1..=40usize {
        for rep in 0..(if thorough { 6 } else { 2 }) {
            let qr = qr_of(v, seed + rep * 977);
            let id = sink.id();
            sink.emit(&text_event(id, &format!("text:{v}"), &qr));
        }
    }
    for (i, v) in [1usize, 2, 6, 13, 40].into_iter().enumerate() { for kind in 0..6usize {
        if !thorough && (i + kind) % 2 == 1 { continue; }
        let id = sink.id();
        sink.emit(&text_event(id, &format!("textsyn:{kind}"), &synthetic(v, kind, seed)));
    } }
    // a symbol living in a REUSED buffer: whatever lies in the backing array beyond size x size (here: dark modules, or a larger symbol) is not
    // part of the matrix and may not show up in the border
    for (i, v) in [1usize, 3, 7, 20, 39].into_iter().enumerate() {
        let mut q = if i % 2 == 0 { qr_of(40, seed) } else { let mut d = QRCode::default(177); for m in d.data.iter_mut() { *m = fast_qr::Module::data(true); } d };
        let small = qr_of(v, seed + 5);
        let n = small.size;
        q.size = n; q.version = small.version; q.ecl = small.ecl; q.mask = small.mask; q.mode = small.mode;
        for y in 0..n { for x in 0..n { q[y][x] = small[y][x]; } }
        let id = sink.id();
        sink.emit(&text_event(id, &format!("textreuse:{v}"), &q));
    }
}

