//! DIFFERENTIAL INPUT SELECTION.  The crate under test (/repo) and a frozen reference copy of it (/verif/ref, the tree on which every
//! check passes) run side by side on very large random samples of the JOINT input space (content class x length x options; renderer
//! programs x symbols); where they differ, the input is handed to the ordinary events and judged by TLC against the specification.
//! A difference is not a verdict: a property-preserving change of the crate produces differences too, and TLC accepts them.
//! What this buys is depth: comparing two builds costs microseconds, judging one costs milliseconds to seconds, so a conjunction of
//! narrow conditions that one sample in 10^5 meets is still found - provided the sampler can produce it at all.
use crate::common::*;
use crate::gen::*;
use crate::scen_render::*;
use rand::Rng;
use serde_json::json;

/// outcome of one build, reduced to what can be compared across the two crates
#[derive(PartialEq, Eq, Clone, Debug)]
pub struct Digest { kind: u8, size: usize, fields: [i64; 4], hash: u64 }
fn fnv64(data: impl Iterator<Item = u8>) -> u64 { let mut h: u64 = 0xcbf29ce484222325; for b in data { h ^= b as u64; h = h.wrapping_mul(0x100000001b3); } h }

macro_rules! twin {
    ($modname:ident, $krate:ident) => {
        pub mod $modname {
            use super::*;
            use $krate::convert::{image::ImageBuilder, svg::SvgBuilder, Builder, ImageBackgroundShape, Shape};
            use $krate::{Mask, Mode, QRBuilder, QRCode, Version, ECL};
            const LV: [ECL; 4] = [ECL::L, ECL::M, ECL::Q, ECL::H];
            const MD: [Mode; 3] = [Mode::Numeric, Mode::Alphanumeric, Mode::Byte];
            const MK: [Mask; 8] = [Mask::Checkerboard, Mask::HorizontalLines, Mask::VerticalLines, Mask::DiagonalLines, Mask::LargeCheckerboard, Mask::Fields, Mask::Diamonds, Mask::Meadow];
            const SH: [Shape; 6] = [Shape::Square, Shape::Circle, Shape::RoundedSquare, Shape::Vertical, Shape::Horizontal, Shape::Diamond];
            const FS: [ImageBackgroundShape; 3] = [ImageBackgroundShape::Square, ImageBackgroundShape::Circle, ImageBackgroundShape::RoundedSquare];
            fn ver(v: usize) -> Version {
                // Version is a fieldless enum V01..V40 in declaration order
                const ALL: [Version; 40] = [Version::V01, Version::V02, Version::V03, Version::V04, Version::V05, Version::V06, Version::V07, Version::V08, Version::V09, Version::V10,
                    Version::V11, Version::V12, Version::V13, Version::V14, Version::V15, Version::V16, Version::V17, Version::V18, Version::V19, Version::V20,
                    Version::V21, Version::V22, Version::V23, Version::V24, Version::V25, Version::V26, Version::V27, Version::V28, Version::V29, Version::V30,
                    Version::V31, Version::V32, Version::V33, Version::V34, Version::V35, Version::V36, Version::V37, Version::V38, Version::V39, Version::V40];
                ALL[v - 1]
            }
            pub fn build(s: &BuildSpec) -> Option<QRCode> {
                let mut b = QRBuilder::new(s.input.clone());
                if let Some(e) = s.ecl { b.ecl(LV[e]); }
                if let Some(m) = s.mode { b.mode(MD[m]); }
                if let Some(v) = s.version { b.version(ver(v)); }
                if let Some(m) = s.mask { b.mask(MK[m]); }
                b.build().ok()
            }
            pub fn digest(s: &BuildSpec) -> Digest {
                let mut b = QRBuilder::new(s.input.clone());
                if let Some(e) = s.ecl { b.ecl(LV[e]); }
                if let Some(m) = s.mode { b.mode(MD[m]); }
                if let Some(v) = s.version { b.version(ver(v)); }
                if let Some(m) = s.mask { b.mask(MK[m]); }
                match std::panic::catch_unwind(std::panic::AssertUnwindSafe(|| b.build())) {
                    Err(_) => Digest { kind: 2, size: 0, fields: [0; 4], hash: 0 },
                    Ok(Err(e)) => Digest { kind: 1, size: 0, fields: [format!("{e:?}").len() as i64, 0, 0, 0], hash: fnv64(format!("{e:?}").bytes()) },
                    Ok(Ok(qr)) => Digest { kind: 0, size: qr.size, fields: [qr.version.map(|v| v as i64).unwrap_or(-1), qr.ecl.map(|e| e as i64).unwrap_or(-1), qr.mask.map(|m| m as i64).unwrap_or(-1), qr.mode.map(|m| m as i64).unwrap_or(-1)],
                                          hash: fnv64(qr.data.iter().map(|m| m.0)) },
                }
            }
            fn apply<B: Builder>(c: &Call, b: &mut B) {
                match c {
                    Call::Shape(s) => { b.shape(SH[*s]); } Call::ShapeColor(s, col) => { b.shape_color(SH[*s], col.clone()); } Call::Margin(m) => { b.margin(*m); }
                    Call::ModuleColor(col) => { b.module_color(col.clone()); } Call::BackgroundColor(col) => { b.background_color(col.clone()); }
                    Call::ModuleColorStr(s) => { b.module_color(s.as_str()); } Call::BackgroundColorStr(s) => { b.background_color(s.as_str()); }
                    Call::Image(s) => { b.image(s.clone()); } Call::ImageBackgroundColor(col) => { b.image_background_color(col.clone()); }
                    Call::ImageBackgroundShape(k) => { b.image_background_shape(FS[*k]); } Call::ImageSize(x) => { b.image_size(*x); } Call::ImageGap(x) => { b.image_gap(*x); }
                    Call::ImagePosition(x, y) => { b.image_position(*x, *y); } Call::FitWidth(_) | Call::FitHeight(_) => {}
                }
            }
            /// (hash of the SVG text, hash of the terminal text)
            pub fn svg_hash(qr: &QRCode, prog: &[Call]) -> u64 {
                let mut b = SvgBuilder::default();
                for c in prog { apply(c, &mut b); }
                match std::panic::catch_unwind(std::panic::AssertUnwindSafe(|| b.to_str(qr))) { Ok(s) => fnv64(s.bytes()), Err(_) => 1 }
            }
            #[cfg(feature = "hooks")]
            pub fn wasm_hashes(content: &str, prog: &[crate::scen_wasm::WCall]) -> (u64, u64) {
                use crate::scen_wasm::WCall;
                use $krate::wasm_host::{qr, qr_svg, SvgOptions};
                let svg = std::panic::catch_unwind(std::panic::AssertUnwindSafe(|| {
                    let mut o = SvgOptions::new();
                    for c in prog { o = match c {
                        WCall::Shape(s) => o.shape(SH[*s]), WCall::Margin(m) => o.margin(*m), WCall::Ecl(e) => o.ecl(LV[*e]), WCall::Version(v) => o.version(ver(*v)),
                        WCall::ModuleColor(s) => o.module_color(s.clone()), WCall::BackgroundColor(s) => o.background_color(s.clone()), WCall::ImageBackgroundColor(s) => o.image_background_color(s.clone()),
                        WCall::Image(s) => o.image(s.clone()), WCall::ImageBackgroundShape(k) => o.image_background_shape(FS[*k]), WCall::ImageSize(a, b) => o.image_size(*a, *b), WCall::ImagePosition(f) => o.image_position(f.clone()),
                    }; }
                    qr_svg(content, o)
                }));
                let m = std::panic::catch_unwind(std::panic::AssertUnwindSafe(|| qr(content)));
                (match svg { Ok(s) => fnv64(s.bytes()), Err(_) => 1 }, match m { Ok(v) => fnv64(v.iter().cloned()), Err(_) => 1 })
            }
            /// a hand-made symbol (public fields, arbitrary module values): the renderers take any &QRCode
            pub fn handmade(v: usize, kind: usize) -> QRCode {
                let n = 17 + 4 * v;
                let mut q = QRCode::default(n);
                for y in 0..n { for x in 0..n {
                    let dark = match kind { 0 => true, 1 => false, 2 => (x + y) % 2 == 0, 3 => y % 2 == 0, 4 => x == 0 || y == 0 || x == n - 1 || y == n - 1, 5 => y == n - 1 || x == n - 1, _ => (x * 7 + y * 13 + x * y) % 3 == 0 };
                    q.data[y * n + x] = $krate::Module::data(dark);
                } }
                q
            }
            pub fn text_hash(qr: &QRCode) -> u64 { match std::panic::catch_unwind(std::panic::AssertUnwindSafe(|| qr.to_str())) { Ok(s) => fnv64(s.bytes()), Err(_) => 1 } }
            pub fn raster_hash(qr: &QRCode, prog: &[Call]) -> u64 {
                let mut b = ImageBuilder::default();
                for c in prog { match c { Call::FitWidth(w) => { b.fit_width(*w); } Call::FitHeight(h) => { b.fit_height(*h); } other => apply(other, &mut b) } }
                match std::panic::catch_unwind(std::panic::AssertUnwindSafe(|| { let p = b.to_pixmap(qr); let png = b.to_bytes(qr).map(|v| fnv64(v.into_iter())).unwrap_or(7); (p.width(), fnv64(p.data().iter().cloned()) ^ png.rotate_left(17)) })) { Ok((w, h)) => h ^ ((w as u64) << 48), Err(_) => 1 }
            }
        }
    };
}
twin!(test_side, fast_qr);
twin!(ref_side, fast_qr_ref);

/// one sample of the joint space of build requests
fn sample_spec(r: &mut rand::rngs::StdRng, i: usize) -> BuildSpec {
    let e = match r.gen_range(0..5) { 4 => None, k => Some(k as usize) };
    let version = match r.gen_range(0..10) { 0..=5 => None, 6 => Some(r.gen_range(1..=40usize)), 7 => Some([1usize, 2, 9, 10, 26, 27, 40][r.gen_range(0..7)]), _ => Some(r.gen_range(1..=12usize)) };
    let mask = if r.gen_range(0..4) == 0 { Some(r.gen_range(0..8usize)) } else { None };
    let class = r.gen_range(0..3usize);
    // length: mostly small, sometimes at a capacity boundary of a random (version, level, mode), sometimes anywhere up to 7100
    let lvl = e.unwrap_or(2);
    let n = match r.gen_range(0..10) {
        0..=4 => r.gen_range(0..80usize),
        5 | 6 => { let v = version.unwrap_or_else(|| r.gen_range(1..=40)); let cap = capacity(class, lvl, v); (cap as i64 + r.gen_range(-2..=2i64)).max(0) as usize }
        7 => { let v = r.gen_range(1..=40usize); let m2 = r.gen_range(0..3usize); let cap = capacity(m2, r.gen_range(0..4usize), v); (cap as i64 + r.gen_range(-1..=1i64)).max(0) as usize }
        8 => r.gen_range(0..600usize),
        _ => r.gen_range(0..7100usize),
    };
    let mut input = payload(r, class, n, false);
    // content structure: pure class, one character of another class somewhere (early, late, anywhere), a run, UTF-8 text
    if n > 0 { match r.gen_range(0..8) {
        0 => { let at = r.gen_range(0..n); input[at] = [b'A', b'a', b'\n', 0x80, b' ', b':', 0xFF, b'0'][r.gen_range(0..8)]; }
        1 => { let at = n - 1 - r.gen_range(0..n.min(3)); input[at] = [b'A', b'a', b'\n', b','][r.gen_range(0..4)]; }
        2 => { let at = r.gen_range(0..n.min(3)); input[at] = [b'A', b'a', b'\\', b'#'][r.gen_range(0..4)]; }
        3 => { let c = input[0]; let l = r.gen_range(1..=n); for x in input[..l].iter_mut() { *x = c; } }
        _ => {}
    } }
    let mode = match r.gen_range(0..4) { 0 => None, 1 => Some(crate::scen_build::best_mode(&input)), 2 => Some(2), _ => None };
    BuildSpec { input, ecl: e, mode, version, mask, grp: 0, tag: format!("diffbuild:{}", i % 10), lite: false }
}

/// millions of build requests compared between the two crates; the differing ones (at most `keep`) are built for real and judged
pub fn diffbuild(sink: &mut Sink, seed: u64, thorough: bool) {
    let per_thread = if thorough { 300_000usize } else { 8_000 };
    let nthreads = 14usize;
    let (tx, rx) = std::sync::mpsc::channel::<BuildSpec>();
    let handles: Vec<_> = (0..nthreads).map(|t| { let tx = tx.clone(); std::thread::spawn(move || {
        let mut r = rng(seed, 700 + t as u64);
        let mut found = 0usize;
        for i in 0..per_thread {
            let s = sample_spec(&mut r, i);
            if s.input.len() > 1200 && i % 4 != 0 { continue; }            // large symbols are slow: a quarter of them
            if test_side::digest(&s) != ref_side::digest(&s) { let _ = tx.send(s); found += 1; if found >= 12 { break; } }
        }
    }) }).collect();
    drop(tx);
    for h in handles { let _ = h.join(); }
    let mut differing: Vec<BuildSpec> = rx.try_iter().collect();
    differing.sort_by_key(|s| s.input.len());
    differing.truncate(if thorough { 60 } else { 30 });
    let n = differing.len();
    for mut s in differing { s.lite = s.input.len() > 400; sink.build(&s); }
    // never empty: two ordinary requests
    let mut r = rng(seed, 699);
    for i in 0..2 { let mut s = sample_spec(&mut r, i); s.input.truncate(40); s.mode = None; s.version = None; s.tag = "diffbuild:sample".into(); sink.build(&s); }
    let id = sink.id();
    sink.emit(&json!({"ev": "FileSkip", "id": id, "tag": format!("diffbuild:summary:{}", n.min(1)), "fault": format!("{} sampled requests per thread x {} threads, {} differ from the reference build", per_thread, nthreads, n)}));
}

fn sample_prog(r: &mut rand::rngs::StdRng, n: f64, raster: bool, imgs: &[String]) -> Vec<Call> {
    let mut p: Vec<Call> = Vec::new();
    let col = |r: &mut rand::rngs::StdRng| -> Vec<u8> { let a = [255u8, 255, 255, 128, 0, 254, 16, 15][r.gen_range(0..8)]; vec![r.gen(), r.gen(), r.gen(), a] };
    for _ in 0..r.gen_range(0..6) {
        p.push(match r.gen_range(0..12) {
            0 => Call::Shape(r.gen_range(0..6)), 1 => Call::ShapeColor(r.gen_range(0..6), col(r)),
            2 => Call::Margin(if r.gen_range(0..2) == 0 { r.gen_range(0..if raster { 24 } else { 70 }) } else { [0usize, 1, 2, 3, 4, 5, 8, 16, 17, 100, 999, 1000, 1024, 1025][r.gen_range(0..if raster { 9 } else { 14 })] }),
            3 => match r.gen_range(0..4) { 0 => Call::ModuleColor(vec![r.gen(), r.gen(), r.gen()]), 1 => Call::ModuleColorStr(["#123456", "#abcdef80", "red", "#FFF", "rgb(1,2,3)", "#0a0B0c"][r.gen_range(0..6)].to_string()), _ => Call::ModuleColor(col(r)) },
            4 => if r.gen_range(0..4) == 0 { Call::BackgroundColorStr(["#ffffff", "#00000000", "transparent", "#FEDCBA"][r.gen_range(0..4)].to_string()) } else { Call::BackgroundColor(col(r)) },
            5 => Call::Image(if r.gen_range(0..2) == 0 { ["logo.png", "a&b.png", "data:image/png;base64,AAAA", "caf\u{e9}.svg", "x\"y<z>.png"][r.gen_range(0..5)].to_string() } else { imgs[r.gen_range(0..imgs.len())].clone() }),
            6 => Call::ImageBackgroundColor(col(r)), 7 => Call::ImageBackgroundShape(r.gen_range(0..3)),
            8 => { let q = if r.gen_range(0..2) == 0 { 4.0 } else { 1000.0 }; Call::ImageSize((r.gen_range(1..(q * 1.5 * n) as i64) as f64) / q) }
            9 => { let q = if r.gen_range(0..2) == 0 { 4.0 } else { 1000.0 }; Call::ImageGap((r.gen_range(0..(6.0 * q) as i64) as f64) / q) }
            10 => { let q = if r.gen_range(0..2) == 0 { 4.0 } else { 1000.0 }; Call::ImagePosition((r.gen_range(-(2.0 * q) as i64..(q * (n + 8.0)) as i64) as f64) / q, (r.gen_range(-(2.0 * q) as i64..(q * (n + 8.0)) as i64) as f64) / q) }
            _ => if raster { if r.gen_range(0..2) == 0 { Call::FitWidth(r.gen_range(1..12u32) * (n as u32 + 8) + r.gen_range(0..3)) } else { Call::FitHeight(r.gen_range(1..9u32) * (n as u32 + 8)) } } else { Call::Margin(r.gen_range(0..12)) },
        });
    }
    p
}

/// renderer programs compared between the two crates on a handful of symbols; differing ones are rendered for real and judged
pub fn diffrender(sink: &mut Sink, seed: u64, thorough: bool) {
    let cells = [(1usize, 0usize), (1, 3), (2, 1), (2, 3), (3, 2), (5, 3), (7, 0), (10, 1), (25, 2), (40, 0)];      // (version, level): the renderers are handed the fields too
    let versions: Vec<usize> = cells.iter().map(|c| c.0).collect();
    let specs: Vec<BuildSpec> = cells.iter().map(|&(v, e)| { let mut r = rng(seed, 800 + (v * 4 + e) as u64); let cap = capacity(2, e, v); BuildSpec { input: payload(&mut r, 2, cap / 2 + 1, true), ecl: Some(e), mode: None, version: Some(v), mask: None, grp: 0, tag: String::new(), lite: false } }).collect();
    let per_thread = if thorough { 60_000usize } else { 6_000 };
    let nthreads = 14usize;
    let (tx, rx) = std::sync::mpsc::channel::<(usize, bool, Vec<Call>)>();
    let imgs: std::sync::Arc<Vec<String>> = std::sync::Arc::new({ let mut v = image_pool(); v.retain(|s| s.len() < 200); v.extend(image_structured(seed, true)); v });
    let handles: Vec<_> = (0..nthreads).map(|t| { let (tx, specs, imgs) = (tx.clone(), specs.clone(), imgs.clone()); std::thread::spawn(move || {
        let mut r = rng(seed, 900 + t as u64);
        let qs: Vec<_> = specs.iter().map(|s| (test_side::build(s), ref_side::build(s))).collect();
        let mut found = 0usize;
        for i in 0..per_thread {
            let k = if i % 5 == 0 { r.gen_range(0..qs.len()) } else { r.gen_range(0..6) };
            let (Some(qt), Some(qr)) = (&qs[k].0, &qs[k].1) else { continue };
            let raster = i % 4 == 0 && k < 6;
            let p = sample_prog(&mut r, qt.size as f64, raster, &imgs);
            let differ = if raster { test_side::raster_hash(qt, &p) != ref_side::raster_hash(qr, &p) } else { test_side::svg_hash(qt, &p) != ref_side::svg_hash(qr, &p) };
            if differ { let _ = tx.send((k, raster, p)); found += 1; if found >= 10 { break; } }
        }
        for (k, (qt, qr)) in qs.iter().enumerate() { if let (Some(a), Some(b)) = (qt, qr) { if test_side::text_hash(a) != ref_side::text_hash(b) { let _ = tx.send((k, false, vec![Call::Margin(usize::MAX)])); } } }
    }) }).collect();
    drop(tx);
    for h in handles { let _ = h.join(); }
    let mut differing: Vec<(usize, bool, Vec<Call>)> = rx.try_iter().collect();
    differing.sort_by_key(|d| (d.0, d.2.len()));
    differing.truncate(if thorough { 60 } else { 30 });
    let n = differing.len();
    for (k, raster, p) in differing {
        let Outcome::Ok(qr) = run_build(&specs[k]) else { continue };
        let id = sink.id();
        if matches!(p.as_slice(), [Call::Margin(usize::MAX)]) { sink.emit(&text_event(id, &format!("difftext:{}", versions[k]), &qr)); continue; }
        if raster { sink.emit(&raster_event(id, &format!("diffraster:{}", versions[k]), &qr, &p)); }
        else {
            let mut ev = svg_event(id, &format!("diffsvg:{}", versions[k]), &qr, &p);
            // programs with explicit frame options are judged as frame events too (the SvgFrame step checks the C18 predicates)
            sink.emit(&ev);
            if p.iter().any(|c| matches!(c, Call::Image(_))) { let id2 = sink.id(); ev["ev"] = json!("SvgFrame"); ev["id"] = json!(id2); if let Some(o) = ev.get_mut("obs").and_then(|o| o.as_object_mut()) { o.insert("layers".into(), json!([])); } if let Some(o) = ev.as_object_mut() { o.insert("vals".into(), json!([])); } sink.emit(&ev); }
        }
    }
    // hand-made symbols through the three renderers
    for v in [1usize, 2, 6, 13, 40] { for kind in 0..7usize {
        let (a, b) = (test_side::handmade(v, kind), ref_side::handmade(v, kind));
        if test_side::text_hash(&a) != ref_side::text_hash(&b) { let id = sink.id(); sink.emit(&text_event(id, &format!("difftext:handmade:{kind}"), &a)); }
        for sh in [0usize, 1, 3] {
            let p = vec![Call::Margin(kind % 3), Call::Shape(sh)];
            if test_side::svg_hash(&a, &p) != ref_side::svg_hash(&b, &p) { let id = sink.id(); sink.emit(&svg_event(id, &format!("diffsvg:handmade:{kind}"), &a, &p)); }
            if v <= 6 { let mut pr = p.clone(); pr.push(Call::FitWidth(4 * (a.size + 2 * (kind % 3)) as u32)); if test_side::raster_hash(&a, &pr) != ref_side::raster_hash(&b, &pr) { let id = sink.id(); sink.emit(&raster_event(id, &format!("diffraster:handmade:{kind}"), &a, &pr)); } }
        }
    } }
    let q1 = qr_of(1, seed);
    let id = sink.id();
    sink.emit(&svg_event(id, "diffsvg:sample", &q1, &[Call::Margin(2)]));
    let id = sink.id();
    sink.emit(&json!({"ev": "FileSkip", "id": id, "tag": format!("diffrender:summary:{}", n.min(1)), "fault": format!("{} sampled programs per thread x {} threads, {} differ from the reference build", per_thread, nthreads, n)}));
}

/// the wasm facade (host build) compared between the two crates on random (content, setter program) pairs; differing ones are judged
#[cfg(feature = "hooks")]
pub fn diffwasm(sink: &mut Sink, seed: u64, thorough: bool) {
    use crate::scen_wasm::{wasm_qr_event, wasm_svg_event, WCall, BAD_COLORS, OK_COLORS};
    let per_thread = if thorough { 40_000usize } else { 4_000 };
    let nthreads = 14usize;
    let (tx, rx) = std::sync::mpsc::channel::<(String, Vec<WCall>, bool)>();
    let handles: Vec<_> = (0..nthreads).map(|t| { let tx = tx.clone(); std::thread::spawn(move || {
        let mut r = rng(seed, 1000 + t as u64);
        let mut found = 0usize;
        for i in 0..per_thread {
            let e = r.gen_range(0..4usize);
            let class = r.gen_range(0..3usize);
            let n = match r.gen_range(0..8) { 0..=3 => r.gen_range(0..60usize), 4 | 5 => { let v = r.gen_range(1..=40usize); (capacity(class, e, v) as i64 + r.gen_range(-1..=1i64)).max(0) as usize } 6 => (capacity(class, e, 40) as i64 + r.gen_range(-1..=1i64)) as usize, _ => r.gen_range(0..400usize) };
            if n > 900 && i % 6 != 0 { continue; }
            let content: String = String::from_utf8_lossy(&payload(&mut r, class, n, false)).to_string();
            let col = |r: &mut rand::rngs::StdRng| -> String { if r.gen_range(0..4) == 0 { BAD_COLORS[r.gen_range(0..BAD_COLORS.len())].to_string() } else { OK_COLORS[r.gen_range(0..OK_COLORS.len())].to_string() } };
            let mut prog: Vec<WCall> = vec![WCall::Ecl(e)];
            for _ in 0..r.gen_range(0..6) { prog.push(match r.gen_range(0..11) {
                0 => WCall::Shape(r.gen_range(0..6)), 1 => WCall::Margin([0usize, 1, 4, 9, 20, 255, 1000][r.gen_range(0..7)]), 2 => WCall::Ecl(r.gen_range(0..4)), 3 => WCall::Version(r.gen_range(1..=40)),
                4 => WCall::ModuleColor(col(&mut r)), 5 => WCall::BackgroundColor(col(&mut r)), 6 => WCall::ImageBackgroundColor(col(&mut r)),
                7 => WCall::Image(["logo.png", "", "a?b=1&c=caf\u{e9}", "x\"y.png"][r.gen_range(0..4)].to_string()), 8 => WCall::ImageBackgroundShape(r.gen_range(0..3)),
                9 => WCall::ImageSize((r.gen_range(0..120) as f64) / 4.0, (r.gen_range(0..12) as f64) / 4.0),
                _ => WCall::ImagePosition((0..[2usize, 2, 2, 0, 1, 3][r.gen_range(0..6)]).map(|_| (r.gen_range(0..160) as f64) / 4.0).collect()),
            }); }
            let (a, b) = (test_side::wasm_hashes(&content, &prog), ref_side::wasm_hashes(&content, &prog));
            if a != b { let _ = tx.send((content, prog, a.0 != b.0)); found += 1; if found >= 8 { break; } }
        }
    }) }).collect();
    drop(tx);
    for h in handles { let _ = h.join(); }
    let mut differing: Vec<(String, Vec<WCall>, bool)> = rx.try_iter().collect();
    differing.sort_by_key(|d| d.0.len());
    differing.truncate(if thorough { 40 } else { 20 });
    let n = differing.len();
    for (content, prog, svg_differs) in differing {
        let id = sink.id();
        if svg_differs { sink.emit(&wasm_svg_event(id, "diffwasm:svg", &content, &prog)); } else { sink.emit(&wasm_qr_event(id, "diffwasm:qr", &content)); }
    }
    let id = sink.id();
    sink.emit(&wasm_svg_event(id, "diffwasm:sample", "HELLO", &[WCall::Margin(2)]));
    let id = sink.id();
    sink.emit(&json!({"ev": "FileSkip", "id": id, "tag": format!("diffwasm:summary:{}", n.min(1)), "fault": format!("{} sampled (content, program) pairs per thread x {} threads, {} differ from the reference build", per_thread, nthreads, n)}));
}
