//! C19: to_file under injected I/O faults.  Faults are real: create-time faults by path choice, write-time faults by
//! /dev/full (ENOSPC) and RLIMIT_FSIZE with SIGXFSZ ignored (EFBIG exactly at byte k).
use crate::common::*;
use crate::scen_render::*;
use fast_qr::QRCode;
use serde_json::{json, Value};
use std::path::{Path, PathBuf};

fn set_fsize_limit(limit: Option<u64>) {
    unsafe {
        libc::signal(libc::SIGXFSZ, libc::SIG_IGN);
        let mut cur = libc::rlimit { rlim_cur: 0, rlim_max: 0 };
        libc::getrlimit(libc::RLIMIT_FSIZE, &mut cur);
        let lim = libc::rlimit { rlim_cur: limit.unwrap_or(cur.rlim_max), rlim_max: cur.rlim_max };
        libc::setrlimit(libc::RLIMIT_FSIZE, &lim);
    }
}

fn scratch() -> PathBuf {
    let base = std::env::var("FQV_SCRATCH").map(PathBuf::from).unwrap_or_else(|_| std::env::temp_dir());
    let d = base.join(format!("fqv-file-{}", std::process::id()));
    let _ = std::fs::remove_dir_all(&d);
    std::fs::create_dir_all(&d).expect("scratch dir");
    d
}

/// the path that provokes a create-time fault class (None: class not available here)
fn fault_path(dir: &Path, fault: &str, ext: &str) -> Option<String> {
    let p = |s: PathBuf| Some(s.to_string_lossy().to_string());
    match fault {
        "none" | "EFBIG" => p(dir.join(format!("out.{ext}"))),
        // no fault, but a legal name of an unusual kind (the outcome must not depend on how the file is called)
        "name0" => p(dir.join(format!("two words and\ttab.{ext}"))),
        "name1" => p(dir.join(format!("\u{fc}\u{f1}\u{ed}-\u{4e8c}\u{7ef4}\u{7801}-\u{1f680}.{ext}"))),
        "name2" => p(dir.join(format!("-rf --.{ext}"))),
        "name3" => p(dir.join(format!("dots..in...name.{}", ext.to_uppercase()))),
        "name4" => p(dir.join("noextension")),
        "name5" => { let _ = std::env::set_current_dir(dir); Some(format!("relative.{ext}")) }
        "name6" => { let _ = std::env::set_current_dir(dir); let _ = std::fs::create_dir_all(dir.join("sub/dir")); Some(format!("./sub/../sub/dir//relative.{ext}")) }
        "name7" => { let t = dir.join(format!("symlink_target.{ext}")); let l = dir.join(format!("symlink.{ext}")); let _ = std::fs::remove_file(&l); let _ = std::fs::write(&t, b"old");
                     if std::os::unix::fs::symlink(&t, &l).is_ok() { p(l) } else { None } }
        "name8" => p(dir.join(format!("{}.{ext}", "n".repeat(250 - ext.len())))),                     // the longest legal name (255 bytes)
        "name9" => p(dir.join(format!("back\\slash'quote\"double&amp;<x>.{ext}"))),
        "ENOENT" => p(dir.join("missing").join(format!("out.{ext}"))),
        "EISDIR" => { let d = dir.join(format!("isdir.{ext}")); let _ = std::fs::create_dir_all(&d); p(d) }
        "ENOTDIR" => { let f = dir.join("plainfile"); let _ = std::fs::write(&f, b"x"); p(f.join(format!("out.{ext}"))) }
        "EROFS" => if Path::new("/proc/version").exists() { Some("/proc/version".into()) } else { None },
        "ENAMETOOLONG" => p(dir.join(format!("{}.{ext}", "n".repeat(5000)))),
        "ELOOP" => { let a = dir.join("loop_a"); let b = dir.join("loop_b"); let _ = std::fs::remove_file(&a); let _ = std::fs::remove_file(&b);
                     if std::os::unix::fs::symlink(&b, &a).is_ok() && std::os::unix::fs::symlink(&a, &b).is_ok() { p(a) } else { None } }
        "ENOSPC" => if Path::new("/dev/full").exists() { Some("/dev/full".into()) } else { None },
        _ => None,
    }
}

fn classify(path: &str, expect: &[u8], regular: bool) -> (&'static str, i64) {
    if !regular { return ("special", -1); }
    match std::fs::read(path) {
        Err(_) => ("absent", -1),
        Ok(b) => if b == expect { ("equal", b.len() as i64) } else if expect.starts_with(&b) { ("prefix", b.len() as i64) } else { ("other", b.len() as i64) },
    }
}

pub fn file_event(id: u64, tag: &str, dir: &Path, qr: &QRCode, prog: &[Call], renderer: &str, fault: &str, limit: Option<u64>, pre: &str) -> Option<Value> {
    let ext = if renderer == "svg" { "svg" } else { "png" };
    let path = fault_path(dir, fault, ext)?;
    let expect: Vec<u8> = if renderer == "svg" { svg_builder(prog).to_str(qr).into_bytes() } else { image_builder(prog).to_bytes(qr).ok()? };
    let regular = matches!(fault, "none" | "EFBIG") || fault.starts_with("name");
    if regular {
        let _ = std::fs::remove_file(&path);
        // what is at the path before the call: nothing, a shorter file, or a longer one (of other bytes)
        match pre {
            "shorter" => { let _ = std::fs::write(&path, vec![b'#'; (expect.len() / 3).max(1)]); }
            "longer" => { let _ = std::fs::write(&path, vec![b'#'; expect.len() * 2 + 100]); }
            "samelen" => { let _ = std::fs::write(&path, vec![b'#'; expect.len()]); }
            // an earlier rendering of the same length that differs only far from the start (what a recolouring leaves behind)
            "samehead" => { let mut old = expect.clone(); let n = old.len(); for k in [n - 1, n - 2, n - n / 8, n / 2 + 4096.min(n / 3)] { if k < n { old[k] = old[k].wrapping_add(1) | 0x20; } } let _ = std::fs::write(&path, old); }
            _ => {}
        }
    }
    let (q, p, pa, rd) = (qr.clone(), prog.to_vec(), path.clone(), renderer.to_string());
    if fault == "EFBIG" { set_fsize_limit(limit); }
    let res = guarded(120, move || {
        if rd == "svg" { svg_builder(&p).to_file(&q, &pa).map_err(|e| format!("{:?}", e)) } else { image_builder(&p).to_file(&q, &pa).map_err(|e| format!("{:?}", e)) }
    });
    if fault == "EFBIG" { set_fsize_limit(None); }
    let (ret, msg) = match res { Ok(Ok(())) => ("Ok", String::new()), Ok(Err(m)) => ("Err", m), Err(k) => (if k == "Timeout" { "Timeout" } else { "Panic" }, k) };
    let (class, k) = classify(&path, &expect, regular);
    let msg: String = msg.chars().filter(|c| c.is_ascii() && *c != '"' && *c != '\\').take(100).collect();
    Some(json!({"ev": "FileOp", "id": id, "tag": tag, "renderer": renderer, "fault": fault, "len": expect.len(), "limit": limit.map(|x| x as i64).unwrap_or(-1), "pre": pre,
                "ret": ret, "msg": msg, "file": class, "k": k}))
}

/// behaviours: JSON lines printed by TLC for FileIO.tla (fault, off); each is executed for both renderers on a few symbols
pub fn fileio(sink: &mut Sink, seed: u64, thorough: bool, behaviours: &str) {
    let dir = scratch();
    let beh: Vec<Value> = std::fs::read_to_string(behaviours).unwrap_or_default().lines().filter_map(|l| serde_json::from_str(l).ok()).collect();
    let versions: &[usize] = if thorough { &[1, 2, 5, 9, 14, 20, 3, 7] } else { &[1, 3, 2, 4] };
    for (vi, &v) in versions.iter().enumerate() {
        let qr = qr_of(v, seed);
        for renderer in ["svg", "png"] {
            // the file must hold the rendering of THIS builder: options that change the bytes (margin, shape, colours, fit)
            let prog: Vec<Call> = match vi % 4 {
                0 => vec![],
                1 => vec![Call::Margin(2), Call::Shape(1 + vi % 5)],
                2 => vec![Call::BackgroundColor(vec![250, 240, 230, 64]), Call::ModuleColor(vec![18, 52, 86, 255]), Call::FitWidth(96), Call::Margin(1)],
                _ => vec![Call::Margin(0), Call::ShapeColor(0, vec![200, 30, 40, 255]), Call::FitHeight(150), Call::Image("logo.png".into())],
            };
            let len = if renderer == "svg" { svg_builder(&prog).to_str(&qr).len() as u64 } else { image_builder(&prog).to_bytes(&qr).map(|b| b.len()).unwrap_or(0) as u64 };
            for b in &beh {
                let fault = b["fault"].as_str().unwrap_or("none");
                let off = b["off"].as_u64().unwrap_or(0);
                let pre = b["pre"].as_str().unwrap_or("absent");
                // concretisation of the chunk offset (inverse of AbsOff)
                let limit = match off { 0 => 0, 1 => 1, 2 => len / 2, 3 => len - 1, _ => len };
                let id = sink.id();
                match file_event(id, &format!("file:{renderer}:{fault}:{off}:{pre}"), &dir, &qr, &prog, renderer, fault, if fault == "EFBIG" { Some(limit) } else { None }, pre) {
                    Some(ev) => sink.emit(&ev),
                    None => sink.emit(&json!({"ev": "FileSkip", "id": id, "tag": format!("file:{renderer}:{fault}:{off}:{pre}"), "fault": fault})),
                }
            }
            // unusual but legal names: the same outcome as the plain name (reported to the specification as the no-fault class)
            for k in 0..10usize {
                if !thorough && (k + vi) % 2 == 1 { continue; }
                let id = sink.id();
                let pre = ["absent", "shorter", "longer", "samelen", "samehead"][(k + vi) % 5];
                if let Some(mut ev) = file_event(id, &format!("filename:{renderer}:{k}"), &dir, &qr, &prog, renderer, &format!("name{k}"), None, pre) { ev["fault"] = json!("none"); sink.emit(&ev); }
            }
            if thorough {
                // device full after k bytes, k swept
                for j in 0..64u64 {
                    let limit = match j { 0 => 0, 1 => 1, 2 => 2, 61 => len - 2, 62 => len - 1, 63 => len + 1, _ => len * j / 64 };
                    let id = sink.id();
                    if let Some(ev) = file_event(id, &format!("filesweep:{renderer}"), &dir, &qr, &prog, renderer, "EFBIG", Some(limit), ["absent", "shorter", "longer", "samelen", "samehead"][j as usize % 5]) { sink.emit(&ev); }
                }
            }
        }
    }
    let _ = std::fs::remove_dir_all(&dir);
}

/// One to_file call prepared for a concurrent run: path, expected bytes, and the closure that performs it
struct Prepared { tag: String, renderer: &'static str, fault: String, pre: String, path: String, expect: Vec<u8>, regular: bool }
fn prepare(dir: &Path, qr: &QRCode, prog: &[Call], renderer: &'static str, fault: &str, pre: &str, name: &str, tag: String) -> Option<Prepared> {
    let ext = if renderer == "svg" { "svg" } else { "png" };
    let regular = fault == "none";
    let path = if regular { dir.join(name).to_string_lossy().to_string() } else { fault_path(dir, fault, ext)? };
    let expect: Vec<u8> = if renderer == "svg" { svg_builder(prog).to_str(qr).into_bytes() } else { image_builder(prog).to_bytes(qr).ok()? };
    if regular {
        let _ = std::fs::remove_file(&path);
        match pre { "shorter" => { let _ = std::fs::write(&path, vec![b'#'; (expect.len() / 3).max(1)]); } "longer" => { let _ = std::fs::write(&path, vec![b'#'; expect.len() * 2 + 100]); } _ => {} }
    }
    Some(Prepared { tag, renderer, fault: fault.to_string(), pre: pre.to_string(), path, expect, regular })
}
/// Runs the prepared calls at once (one thread each, released together by a barrier) and reports one FileOp event per call
fn run_together(sink: &mut Sink, qr: &QRCode, prog: &[Call], calls: Vec<Prepared>) {
    let barrier = std::sync::Arc::new(std::sync::Barrier::new(calls.len()));
    let handles: Vec<_> = calls.iter().map(|c| {
        let (q, p, pa, rd, b) = (qr.clone(), prog.to_vec(), c.path.clone(), c.renderer, barrier.clone());
        std::thread::spawn(move || {
            b.wait();
            std::panic::catch_unwind(std::panic::AssertUnwindSafe(|| {
                if rd == "svg" { svg_builder(&p).to_file(&q, &pa).map_err(|e| format!("{:?}", e)) } else { image_builder(&p).to_file(&q, &pa).map_err(|e| format!("{:?}", e)) }
            }))
        })
    }).collect();
    let results: Vec<_> = handles.into_iter().map(|h| h.join()).collect();
    for (c, res) in calls.iter().zip(results) {
        let (ret, msg) = match res { Ok(Ok(Ok(()))) => ("Ok", String::new()), Ok(Ok(Err(m))) => ("Err", m), _ => ("Panic", "panic".to_string()) };
        let (class, k) = classify(&c.path, &c.expect, c.regular);
        let msg: String = msg.chars().filter(|ch| ch.is_ascii() && *ch != '"' && *ch != '\\').take(100).collect();
        let id = sink.id();
        sink.emit(&json!({"ev": "FileOp", "id": id, "tag": c.tag, "renderer": c.renderer, "fault": c.fault, "len": c.expect.len(), "limit": -1, "pre": c.pre,
                          "ret": ret, "msg": msg, "file": class, "k": k}));
    }
}
/// C19 under concurrency: every pair of behaviours exported by TLC from FileIO2.tla (two calls in flight on two different paths of one
/// directory, same stem or not) on two real threads; then many rounds of four simultaneous plain writes (same stem with two
/// extensions, and another stem) to give a race the chance to show.  Each call is judged like a lone call: independence.
pub fn fileconc(sink: &mut Sink, seed: u64, thorough: bool, behaviours: &str) {
    let dir = scratch();
    let beh: Vec<Value> = std::fs::read_to_string(behaviours).unwrap_or_default().lines().filter_map(|l| serde_json::from_str(l).ok()).collect();
    let qr = qr_of(6, seed);
    let prog: Vec<Call> = vec![Call::Margin(2), Call::Shape(1)];
    for (i, b) in beh.iter().enumerate() {
        let d = dir.join(format!("pair{i}"));
        let _ = std::fs::create_dir_all(&d);
        let same = b["rel"].as_str().unwrap_or("") == "samestem";
        let (r1, r2): (&'static str, &'static str) = if i % 3 == 2 { ("svg", "svg") } else { ("svg", "png") };
        let (n1, n2) = if same { ("ticket.svg".to_string(), if r2 == "png" { "ticket.png".to_string() } else { "ticket.xml".to_string() }) } else { ("first.svg".to_string(), format!("second.{}", if r2 == "png" { "png" } else { "svg" })) };
        let c1 = prepare(&d, &qr, &prog, r1, b["f1"].as_str().unwrap_or("none"), b["p1"].as_str().unwrap_or("absent"), &n1, format!("fileconc:{i}:1"));
        let c2 = prepare(&d, &qr, &prog, r2, b["f2"].as_str().unwrap_or("none"), b["p2"].as_str().unwrap_or("absent"), &n2, format!("fileconc:{i}:2"));
        match (c1, c2) {
            (Some(a), Some(b2)) => run_together(sink, &qr, &prog, vec![a, b2]),
            _ => { let id = sink.id(); sink.emit(&json!({"ev": "FileSkip", "id": id, "tag": format!("fileconc:{i}:skip"), "fault": "unavailable"})); }
        }
        let _ = std::fs::remove_dir_all(&d);
    }
    // race soak: large renderings so that the calls really overlap
    let big = qr_of(if thorough { 30 } else { 18 }, seed);
    let rounds = if thorough { 400 } else { 60 };
    for i in 0..rounds {
        let d = dir.join(format!("race{i}"));
        let _ = std::fs::create_dir_all(&d);
        let pre = ["absent", "shorter", "longer"][i % 3];
        let calls: Vec<Prepared> = [("svg", "ticket.svg"), ("png", "ticket.png"), ("svg", "ticket.xml"), ("png", "other.png")].into_iter().enumerate()
            .filter_map(|(w, (rd, name))| prepare(&d, &big, &prog, rd, "none", pre, name, format!("filerace:{w}"))).collect();
        run_together(sink, &big, &prog, calls);
        let _ = std::fs::remove_dir_all(&d);
    }
    let _ = std::fs::remove_dir_all(&dir);
}
