//! Input generation helpers.  These only decide WHICH inputs are driven (coverage); they are never
//! used as an oracle -- every verdict comes from the TLA+ specification.
use rand::rngs::StdRng;
use rand::{Rng, SeedableRng};

pub const EC_PER_BLOCK: [[usize; 40]; 4] = [
    [7,10,15,20,26,18,20,24,30,18,20,24,26,30,22,24,28,30,28,28,28,28,30,30,26,28,30,30,30,30,30,30,30,30,30,30,30,30,30,30],
    [10,16,26,18,24,16,18,22,22,26,30,22,22,24,24,28,28,26,26,26,26,28,28,28,28,28,28,28,28,28,28,28,28,28,28,28,28,28,28,28],
    [13,22,18,26,18,24,18,22,20,24,28,26,24,20,30,24,28,28,26,30,28,30,30,30,30,28,30,30,30,30,30,30,30,30,30,30,30,30,30,30],
    [17,28,22,16,22,28,26,26,24,28,24,28,22,24,24,30,28,28,26,28,30,24,30,30,30,30,30,30,30,30,30,30,30,30,30,30,30,30,30,30],
];
pub const NUM_BLOCKS: [[usize; 40]; 4] = [
    [1,1,1,1,1,2,2,2,2,4,4,4,4,4,6,6,6,6,7,8,8,9,9,10,12,12,12,13,14,15,16,17,18,19,19,20,21,22,24,25],
    [1,1,1,2,2,4,4,4,5,5,5,8,9,9,10,10,11,13,14,16,17,17,18,20,21,23,25,26,28,29,31,33,35,37,38,40,43,45,47,49],
    [1,1,2,2,4,4,6,6,8,8,8,10,12,16,12,17,16,18,21,20,23,23,25,27,29,34,34,35,38,40,43,45,48,51,53,56,59,62,65,68],
    [1,1,2,4,4,4,5,6,8,8,11,11,16,16,18,16,19,21,25,25,25,34,30,32,35,37,40,42,45,48,51,54,57,60,63,66,70,74,77,81],
];

pub fn num_align(v: usize) -> usize { if v == 1 { 0 } else { v / 7 + 2 } }
pub fn raw_modules(v: usize) -> usize {
    let a = num_align(v);
    (16 * v + 128) * v + 64 - if v >= 2 { (25 * a - 10) * a - 55 } else { 0 } - if v >= 7 { 36 } else { 0 }
}
pub fn total_cw(v: usize) -> usize { raw_modules(v) / 8 }
pub fn data_cw(v: usize, e: usize) -> usize { total_cw(v) - NUM_BLOCKS[e][v - 1] * EC_PER_BLOCK[e][v - 1] }
pub fn cci(mode: usize, v: usize) -> usize {
    match mode {
        0 => if v <= 9 { 10 } else if v <= 26 { 12 } else { 14 },
        1 => if v <= 9 { 9 } else if v <= 26 { 11 } else { 13 },
        _ => if v <= 9 { 8 } else { 16 },
    }
}
pub fn seg_bits(mode: usize, n: usize) -> usize {
    match mode {
        0 => 10 * (n / 3) + [0, 4, 7][n % 3],
        1 => 11 * (n / 2) + 6 * (n % 2),
        _ => 8 * n,
    }
}
pub fn fits(mode: usize, e: usize, v: usize, n: usize) -> bool {
    4 + cci(mode, v) + seg_bits(mode, n) <= 8 * data_cw(v, e) && n < (1usize << cci(mode, v))
}
/// largest payload length that fits version v
pub fn capacity(mode: usize, e: usize, v: usize) -> usize {
    let (mut lo, mut hi) = (0usize, 8000usize);
    while lo < hi { let mid = (lo + hi + 1) / 2; if fits(mode, e, v, mid) { lo = mid } else { hi = mid - 1 } }
    lo
}
pub fn min_version(mode: usize, e: usize, n: usize) -> Option<usize> { (1..=40).find(|&v| fits(mode, e, v, n)) }

pub const ALNUM: &[u8; 45] = b"0123456789ABCDEFGHIJKLMNOPQRSTUVWXYZ $%*+-./:";

pub fn rng(seed: u64, stream: u64) -> StdRng { StdRng::seed_from_u64(seed.wrapping_mul(0x9E3779B97F4A7C15).wrapping_add(stream)) }

/// Random payload of exactly n bytes in the alphabet of `mode`.  With `pure` (and n > 0) the payload
/// contains at least one byte that rules out the more compact modes, so automatic mode picks `mode`.
pub fn payload(r: &mut StdRng, mode: usize, n: usize, pure: bool) -> Vec<u8> {
    let mut p: Vec<u8> = (0..n).map(|_| match mode {
        0 => b'0' + r.gen_range(0..10u8),
        1 => ALNUM[r.gen_range(0..45)],
        _ => match r.gen_range(0..8) { 0 => 0u8, 1 => 0xFF, 2 => 0xEC, 3 => 0x11, _ => r.gen() },
    }).collect();
    if pure && n > 0 {
        let at = r.gen_range(0..n);
        match mode {
            1 => p[at] = ALNUM[r.gen_range(10..45)],
            2 => { let odd = [b'a', b'z', 0x00, 0x80, 0xFF, b',', b'#', b'_']; p[at] = odd[r.gen_range(0..odd.len())]; }
            _ => {}
        }
    }
    p
}

/// Text-level contents: valid UTF-8 drawn by Unicode category (digits of other scripts, other numerics, upper-case and other letters,
/// white space, full-width look-alikes of the alphanumeric set, combining and zero-width characters), alone, repeated, and mixed with
/// ASCII digits / upper-case ASCII.  The standard classifies BYTES (0-9, the 45-character set, everything else); a classification
/// through char methods (is_numeric, is_alphanumeric, is_uppercase, is_whitespace) differs exactly on such texts.
pub fn unicode_texts(seed: u64, thorough: bool) -> Vec<(String, Vec<u8>)> {
    let cats: [(&str, &[char]); 8] = [
        ("nd", &['\u{660}', '\u{669}', '\u{6f0}', '\u{6f9}', '\u{966}', '\u{9e6}', '\u{e50}', '\u{ff10}', '\u{ff19}', '\u{1d7ce}', '\u{1d7ff}']),
        ("no", &['\u{b2}', '\u{b3}', '\u{b9}', '\u{bc}', '\u{bd}', '\u{2167}', '\u{2460}', '\u{2070}', '\u{3007}', '\u{4e09}']),
        ("lu", &['\u{c9}', '\u{3a9}', '\u{414}', '\u{ff21}', '\u{ff3a}', '\u{1e9e}', '\u{10400}']),
        ("ll", &['\u{e9}', '\u{df}', '\u{65e5}', '\u{627}', '\u{ff41}', '\u{3042}', '\u{ac00}']),
        ("ws", &['\u{a0}', '\u{2003}', '\u{3000}', '\u{2028}', '\u{85}', '\u{1680}']),
        ("fw", &['\u{ff04}', '\u{ff05}', '\u{ff0a}', '\u{ff0b}', '\u{ff0d}', '\u{ff0e}', '\u{ff0f}', '\u{ff1a}', '\u{2212}', '\u{2010}', '\u{2024}']),
        ("zw", &['\u{301}', '\u{200b}', '\u{feff}', '\u{200d}', '\u{e0001}', '\u{fe0f}']),
        ("emoji", &['\u{1f600}', '\u{1f680}', '\u{2764}', '\u{1f1eb}', '\u{1f1f7}']),
    ];
    let mut r = rng(seed, 91);
    let mut out: Vec<(String, Vec<u8>)> = Vec::new();
    let mut push = |tag: &str, s: String| out.push((tag.to_string(), s.into_bytes()));
    for (name, chars) in cats.iter() {
        for &c in chars.iter() {
            push(name, c.to_string());                                           // alone
            push(name, format!("{c}{c}{c}"));                                    // repeated
            push(name, format!("2024{c}"));                                      // after ASCII digits
            push(name, format!("{c}12"));                                        // before ASCII digits
            push(name, format!("07{c}55"));                                      // between ASCII digits
            push(name, format!("HELLO {c}"));                                    // after upper-case ASCII of the 45-character set
            push(name, format!("{c}A1"));
        }
        // runs drawn from the category only, and mixed with the two ASCII classes
        for len in 2..=(if thorough { 12 } else { 6 }) {
            push(name, (0..len).map(|_| chars[r.gen_range(0..chars.len())]).collect());
            push(name, (0..len).map(|i| if i % 2 == 0 { chars[r.gen_range(0..chars.len())] } else { (b'0' + r.gen_range(0..10u8)) as char }).collect());
            push(name, (0..len).map(|i| if i % 3 == 0 { chars[r.gen_range(0..chars.len())] } else { ALNUM[r.gen_range(10..45)] as char }).collect());
        }
    }
    // pairs of categories
    for (i, (na, ca)) in cats.iter().enumerate() { for (nb, cb) in cats.iter().skip(i + 1) {
        push("pair", format!("{}{}", ca[r.gen_range(0..ca.len())], cb[r.gen_range(0..cb.len())]));
        let _ = (na, nb);
    } }
    // long numeric-looking texts (phone numbers, dates) in other scripts
    for base in ['\u{660}', '\u{6f0}', '\u{966}', '\u{ff10}'] {
        for len in [4usize, 11, 16, 40] {
            push("phone", (0..len).map(|_| char::from_u32(base as u32 + r.gen_range(0..10)).unwrap_or('0')).collect());
        }
    }
    out
}
