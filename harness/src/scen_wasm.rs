//! C17: the WASM facade compiled on the host (cfg(fast_qr_verif) `wasm_host`), driven by setter programs
//! that TLC exported from spec/Wasm.tla and by seeded longer ones.
use crate::common::*;
use crate::gen::*;
use crate::scen_render::*;
use fast_qr::wasm_host::{qr, qr_svg, SvgOptions};
use fast_qr::QRBuilder;
use rand::Rng;
use serde_json::{json, Value};

#[derive(Clone, Debug)]
pub enum WCall {
    Shape(usize), Margin(usize), Ecl(usize), Version(usize), ModuleColor(String), BackgroundColor(String), ImageBackgroundColor(String),
    Image(String), ImageBackgroundShape(usize), ImageSize(f64, f64), ImagePosition(Vec<f64>),
}
impl WCall {
    pub fn json(&self) -> Value {
        let base = |op: &str| json!({"op": op, "a": 0, "b": 0, "e": "none", "s": [], "f": []});
        let mut j;
        match self {
            WCall::Shape(s) => { j = base("shape"); j["a"] = json!(s); }
            WCall::Margin(m) => { j = base("margin"); j["a"] = json!(m); }
            WCall::Ecl(e) => { j = base("ecl"); j["e"] = json!(LEVEL_NAMES[*e]); }
            WCall::Version(v) => { j = base("version"); j["a"] = json!(v); }
            WCall::ModuleColor(s) => { j = base("module_color"); j["s"] = json!(cps(s)); }
            WCall::BackgroundColor(s) => { j = base("background_color"); j["s"] = json!(cps(s)); }
            WCall::ImageBackgroundColor(s) => { j = base("image_background_color"); j["s"] = json!(cps(s)); }
            WCall::Image(s) => { j = base("image"); j["s"] = json!(cps(s)); }
            WCall::ImageBackgroundShape(k) => { j = base("image_background_shape"); j["a"] = json!(k); }
            WCall::ImageSize(s, g) => { j = base("image_size"); j["a"] = json!((s * 1000.0).round() as i64); j["b"] = json!((g * 1000.0).round() as i64); }
            WCall::ImagePosition(f) => { j = base("image_position"); j["f"] = json!(f.iter().map(|x| (x * 1000.0).round() as i64).collect::<Vec<_>>()); }
        }
        j
    }
    pub fn apply(&self, o: SvgOptions) -> SvgOptions {
        match self {
            WCall::Shape(s) => o.shape(SHAPES[*s]),
            WCall::Margin(m) => o.margin(*m),
            WCall::Ecl(e) => o.ecl(LEVELS[*e]),
            WCall::Version(v) => o.version(version(*v)),
            WCall::ModuleColor(s) => o.module_color(s.clone()),
            WCall::BackgroundColor(s) => o.background_color(s.clone()),
            WCall::ImageBackgroundColor(s) => o.image_background_color(s.clone()),
            WCall::Image(s) => o.image(s.clone()),
            WCall::ImageBackgroundShape(k) => o.image_background_shape(FRAME_SHAPES[*k]),
            WCall::ImageSize(s, g) => o.image_size(*s, *g),
            WCall::ImagePosition(f) => o.image_position(f.clone()),
        }
    }
}
fn strict_color(s: &str) -> Option<[u8; 4]> {
    let t = s.strip_prefix('#').unwrap_or(s);
    if !(t.len() == 6 || t.len() == 8) || !t.bytes().all(|b| b.is_ascii_hexdigit()) { return None; }
    let b = |i: usize| u8::from_str_radix(&t[2 * i..2 * i + 2], 16).unwrap();
    Some([b(0), b(1), b(2), if t.len() == 8 { b(3) } else { 255 }])
}
/// The same settings on the native API: the sequence of native builder calls qr_svg is documented to make
/// (values that are not well-formed leave the previous value in place).  Returned as data so that the specification can
/// check it against its own mapping NativeOf(W_After(program)).
fn native_program(prog: &[WCall]) -> Vec<Call> {
    let (mut shape, mut margin, mut module, mut bg, mut imgbg, mut imgshape) = (0usize, 4usize, [0, 0, 0, 255u8], [255u8; 4], [255u8; 4], 0usize);
    let (mut image, mut size, mut pos): (String, Option<(f64, f64)>, Option<(f64, f64)>) = (String::new(), None, None);
    for c in prog {
        match c {
            WCall::Shape(s) => shape = *s, WCall::Margin(m) => margin = *m,
            WCall::Ecl(_) | WCall::Version(_) => {}
            WCall::ModuleColor(s) => if let Some(c) = strict_color(s) { module = c }, WCall::BackgroundColor(s) => if let Some(c) = strict_color(s) { bg = c },
            WCall::ImageBackgroundColor(s) => if let Some(c) = strict_color(s) { imgbg = c },
            WCall::Image(s) => image = s.clone(), WCall::ImageBackgroundShape(k) => imgshape = *k,
            WCall::ImageSize(s, g) => size = Some((*s, *g)), WCall::ImagePosition(f) => if f.len() == 2 { pos = Some((f[0], f[1])) },
        }
    }
    let mut p = vec![Call::Shape(shape), Call::Margin(margin), Call::BackgroundColor(bg.to_vec()), Call::ModuleColor(module.to_vec())];
    if !image.is_empty() { p.push(Call::Image(image)); }
    p.push(Call::ImageBackgroundColor(imgbg.to_vec()));
    p.push(Call::ImageBackgroundShape(imgshape));
    if let Some((s, g)) = size { p.push(Call::ImageSize(s)); p.push(Call::ImageGap(g)); }
    if let Some((x, y)) = pos { p.push(Call::ImagePosition(x, y)); }
    p
}
fn native_svg(content: &str, prog: &[WCall]) -> Option<String> {
    let mut qb = QRBuilder::new(content);
    for c in prog { match c { WCall::Ecl(e) => { qb.ecl(LEVELS[*e]); } WCall::Version(v) => { qb.version(version(*v)); } _ => {} } }
    let qr = qb.build().ok()?;
    Some(svg_builder(&native_program(prog)).to_str(&qr))
}
fn native_build(content: &str, prog: &[WCall]) -> Value {
    let mut spec = BuildSpec { input: content.as_bytes().to_vec(), ..Default::default() };
    for c in prog { match c { WCall::Ecl(e) => spec.ecl = Some(*e), WCall::Version(v) => spec.version = Some(*v), _ => {} } }
    let o = run_build(&spec);
    json!({"opts": spec.opts_json(), "out": outcome_json(&o)})
}

pub fn wasm_svg_event(id: u64, tag: &str, content: &str, prog: &[WCall]) -> Value {
    let (c, p) = (content.to_string(), prog.to_vec());
    let res = guarded(60, move || { let mut o = SvgOptions::new(); for call in &p { o = call.apply(o); } qr_svg(&c, o) });
    let nat = native_build(content, prog);
    let mut ev = json!({"ev": "WasmSvg", "id": id, "tag": tag, "content": content.as_bytes(), "program": prog.iter().map(|c| c.json()).collect::<Vec<_>>(), "native": nat,
                        "native_program": program_json(&native_program(prog))});
    match res {
        Ok(s) => {
            let n = native_svg(content, prog);
            ev["kind"] = json!("Ok"); ev["empty"] = json!(s.is_empty() as u8);
            ev["native_eq"] = json!(match &n { Some(x) => (*x == s) as u8, None => s.is_empty() as u8 });
            ev["obs"] = if s.is_empty() { sense_svg("<x") } else { sense_svg(&s) };
            ev["nobs"] = match &n { Some(x) => sense_svg(x), None => sense_svg("<x") };
        }
        Err(k) => { ev["kind"] = json!(k); ev["empty"] = json!(1); ev["native_eq"] = json!(0); ev["obs"] = sense_svg("<x"); ev["nobs"] = sense_svg("<x"); }
    }
    ev
}
pub fn wasm_qr_event(id: u64, tag: &str, content: &str) -> Value {
    let c = content.to_string();
    let res = guarded(60, move || qr(&c));
    let nat = native_build(content, &[]);
    let mut ev = json!({"ev": "WasmQr", "id": id, "tag": tag, "content": content.as_bytes(), "native": nat});
    match res {
        Ok(bytes) => {
            let n = (bytes.len() as f64).sqrt().round() as usize;
            let square = n * n == bytes.len();
            ev["kind"] = json!("Ok"); ev["len"] = json!(bytes.len()); ev["side"] = json!(if square { n } else { 0 });
            ev["all01"] = json!(bytes.iter().all(|b| *b <= 1) as u8);
            ev["vals"] = json!(if square && n > 0 { bytes.chunks(n).map(|row| pack(&row.iter().map(|b| b & 1).collect::<Vec<_>>(), 24, 1)).collect::<Vec<_>>() } else { vec![] });
        }
        Err(k) => { ev["kind"] = json!(k); ev["len"] = json!(0); ev["side"] = json!(0); ev["all01"] = json!(0); ev["vals"] = json!([]); }
    }
    ev
}

fn from_abstract(j: &Value) -> Option<WCall> {
    let s = || -> String { j["s"].as_array().map(|a| a.iter().filter_map(|x| x.as_u64()).filter_map(|x| char::from_u32(x as u32)).collect()).unwrap_or_default() };
    let a = j["a"].as_u64().unwrap_or(0) as usize;
    Some(match j["op"].as_str()? {
        "shape" => WCall::Shape(a), "margin" => WCall::Margin(a), "version" => WCall::Version(a), "image_background_shape" => WCall::ImageBackgroundShape(a),
        "ecl" => WCall::Ecl(LEVEL_NAMES.iter().position(|n| Some(*n) == j["e"].as_str())?),
        "module_color" => WCall::ModuleColor(s()), "background_color" => WCall::BackgroundColor(s()), "image_background_color" => WCall::ImageBackgroundColor(s()),
        "image" => WCall::Image(s()),
        "image_size" => WCall::ImageSize(j["a"].as_f64()? / 1000.0, j["b"].as_f64()? / 1000.0),
        "image_position" => WCall::ImagePosition(j["f"].as_array()?.iter().filter_map(|x| x.as_f64()).map(|x| x / 1000.0).collect()),
        _ => return None,
    })
}

pub const BAD_COLORS: [&str; 12] = ["", "#", "red", "#12345", "#1234567", "#zzzzzz", "#12345\u{e9}", "123456789", "#+1+2+3", "\u{1F600}", "#\u{e9}\u{e9}\u{e9}", "######"];
pub const OK_COLORS: [&str; 8] = ["#123456", "abcdef80", "#FFFFFF", "00000000", "#0a0B0c", "#11223344", "#FFFFFF80", "ABCDEF"];

/// programs: the alphabet (JSON array of abstract calls) and the behaviours (JSON lines {prog: [indices]}) exported by TLC
pub fn wasm(sink: &mut Sink, seed: u64, thorough: bool, alphabet: &str, behaviours: &str) {
    let mut r = rng(seed, 31);
    let alpha: Vec<WCall> = std::fs::read_to_string(alphabet).ok().and_then(|s| serde_json::from_str::<Vec<Value>>(&s).ok()).unwrap_or_default().iter().filter_map(from_abstract).collect();
    let contents = ["HELLO WORLD", "https://example.com/", "12345", "", "caf\u{e9} \u{65e5}\u{672c}"];
    let mut n = 0usize;
    for l in std::fs::read_to_string(behaviours).unwrap_or_default().lines() {
        let Ok(b) = serde_json::from_str::<Value>(l) else { continue };
        let prog: Vec<WCall> = b["prog"].as_array().map(|a| a.iter().filter_map(|i| i.as_u64()).filter_map(|i| alpha.get(i as usize - 1).cloned()).collect()).unwrap_or_default();
        let id = sink.id();
        sink.emit(&wasm_svg_event(id, &format!("wasmgen:{}", prog.len()), contents[n % 2], &prog));
        n += 1;
    }
    // the matrix export
    let mut qcontents: Vec<String> = contents.iter().map(|s| s.to_string()).collect();
    for k in [1usize, 17, 100, 1273, 1663, 1664, 2000, 7089] { qcontents.push("7".repeat(k)); qcontents.push("a".repeat(k)); }
    for _ in 0..(if thorough { 300 } else { 40 }) { let len = r.gen_range(0..200); let md = r.gen_range(0..3); qcontents.push(String::from_utf8_lossy(&payload(&mut r, md, len, false)).to_string()); }
    // text-level contents (valid UTF-8 by Unicode category): the facade takes &str, the builder bytes
    for (i, (_, t)) in unicode_texts(seed, thorough).into_iter().enumerate() { if thorough || i % 5 == (seed % 5) as usize { if let Ok(s) = String::from_utf8(t) { qcontents.push(s); } } }
    for c in &qcontents { let id = sink.id(); sink.emit(&wasm_qr_event(id, "wasmqr", c)); }
    // contents that need large versions, with options
    for (i, n) in [700usize, 1200, 1600, 1663].into_iter().enumerate() {
        let content = if i % 2 == 0 { "a".repeat(n) } else { format!("{}caf\u{e9}", "b".repeat(n - 5)) };
        let prog = vec![WCall::Margin(i), WCall::Shape(i % 6), WCall::ModuleColor(OK_COLORS[i % 8].to_string()), WCall::Image("logo.png".to_string()), WCall::ImagePosition(vec![40.0 + i as f64, 41.5])];
        let id = sink.id();
        sink.emit(&wasm_svg_event(id, "wasmbig", &content, &prog));
    }
    // every value of every enumerated option once: 40 versions (each with every level), 6 shapes, 3 frame shapes, margins 0..20 and a few large ones
    for v in 1..=40usize { for e in 0..4usize {
        if !thorough && (v + e) % 2 == (seed % 2) as usize { continue; }
        let id = sink.id();
        sink.emit(&wasm_svg_event(id, &format!("wasmenum:version:{v}"), contents[(v + e) % 3], &[WCall::Version(v), WCall::Ecl(e)]));
    } }
    for sh in 0..6usize { for k in 0..3usize {
        let id = sink.id();
        sink.emit(&wasm_svg_event(id, "wasmenum:shape", contents[sh % 2], &[WCall::Shape(sh), WCall::Image("logo.png".to_string()), WCall::ImageBackgroundShape(k)]));
    } }
    for m in (0..=20usize).chain([33usize, 64, 120, 255, 256, 1000]) {
        let id = sink.id();
        sink.emit(&wasm_svg_event(id, "wasmenum:margin", contents[m % 2], &[WCall::Margin(m)]));
    }
    // the capacity thresholds of the largest version through the facade: cap - 1, cap, cap + 1 characters per (level, mode)
    for e in 0..4usize { for mode in 0..3usize {
        let cap = capacity(mode, e, 40);
        for (k, n) in [cap - 1, cap, cap + 1].into_iter().enumerate() {
            if !thorough && !(k == 1 || (k == 2 && (e + mode) % 2 == 0)) { continue; }
            let content: String = match mode { 0 => "7".repeat(n), 1 => "A".repeat(n), _ => "a".repeat(n) };
            let id = sink.id();
            sink.emit(&wasm_svg_event(id, &format!("wasmcap:{e}:{mode}:{k}"), &content, &[WCall::Ecl(e), WCall::Margin(0)]));
        }
    } }
    // image size x gap x position grids with an image set: zero, fractional, larger than the symbol (values that coincide with 'unset' on the JS side)
    for (i, size) in [0.25f64, 1.0, 5.0, 9.0, 30.0].into_iter().enumerate() { for (j, gap) in [0.0f64, 0.25, 1.0, 3.0].into_iter().enumerate() {
        for (k, pos) in [vec![], vec![0.0, 0.0], vec![12.5, 7.0]].into_iter().enumerate() {
            if !thorough && (i + j + k) % 2 == (seed % 2) as usize && gap != 0.0 { continue; }
            let mut prog = vec![WCall::Image("logo.png".to_string()), WCall::ImageSize(size, gap)];
            if !pos.is_empty() { prog.push(WCall::ImagePosition(pos)); }
            let id = sink.id();
            sink.emit(&wasm_svg_event(id, "wasmenum:imagesize", contents[(i + j) % 2], &prog));
        }
    } }
    // longer seeded programs over concrete pools
    for i in 0..(if thorough { 4000 } else { 600 }) {
        let len = r.gen_range(1..9);
        let prog: Vec<WCall> = (0..len).map(|_| {
            let col = |r: &mut rand::rngs::StdRng| -> String { if r.gen_range(0..3) == 0 { BAD_COLORS[r.gen_range(0..BAD_COLORS.len())].to_string() } else { OK_COLORS[r.gen_range(0..OK_COLORS.len())].to_string() } };
            match r.gen_range(0..11) {
                0 => WCall::Shape(r.gen_range(0..6)), 1 => WCall::Margin(r.gen_range(0..12)), 2 => WCall::Ecl(r.gen_range(0..4)), 3 => WCall::Version(r.gen_range(1..12)),
                4 => WCall::ModuleColor(col(&mut r)), 5 => WCall::BackgroundColor(col(&mut r)), 6 => WCall::ImageBackgroundColor(col(&mut r)),
                7 => WCall::Image(["logo.png", "", "https://e.com/a.png", "a?b=1&c=caf\u{e9}", "Tom & J\u{e9}r\u{f4}me.png"][r.gen_range(0..5)].to_string()), 8 => WCall::ImageBackgroundShape(r.gen_range(0..3)),
                9 => WCall::ImageSize((r.gen_range(4..60) as f64) / 4.0, (r.gen_range(0..12) as f64) / 4.0),
                _ => WCall::ImagePosition((0..[2usize, 2, 2, 0, 1, 3][r.gen_range(0..6)]).map(|_| (r.gen_range(20..100) as f64) / 4.0).collect()),
            }
        }).collect();
        let content = if i % 7 == 0 { "8".repeat(r.gen_range(1..400)) } else { contents[i % contents.len()].to_string() };
        let id = sink.id();
        sink.emit(&wasm_svg_event(id, &format!("wasmrand:{}", len.min(4)), &content, &prog));
    }
}
