//! Component scenarios: single pipeline stages driven through the cfg(fast_qr_verif) re-exports.
use crate::common::*;
use crate::gen::*;
use fast_qr::verif;
use rand::Rng;
use serde_json::{json, Value};

fn caught<T: Send + 'static>(f: impl FnOnce() -> T + Send + 'static) -> Result<T, String> { guarded(30, f) }

/// C05: Version::get for every length 0..=7200 x 3 modes x 4 levels, as maximal runs of equal answers (lossless).
pub fn versionget(sink: &mut Sink) {
    for mode in 0..3usize {
        for e in 0..4usize {
            let answers: Result<Vec<i64>, String> = caught(move || {
                (0..=7200usize).map(|n| verif::version_get(MODES[mode], LEVELS[e], n).map(|v| v as i64 + 1).unwrap_or(0)).collect()
            });
            match answers {
                Ok(a) => {
                    let mut from = 0usize;
                    for n in 1..=a.len() {
                        if n == a.len() || a[n] != a[from] {
                            let id = sink.id();
                            sink.emit(&json!({"ev": "VersionGetRun", "id": id, "tag": format!("vget:{mode}:{e}"), "mode": mode, "ecl": LEVEL_NAMES[e],
                                              "from": from, "to": n - 1, "v": a[from], "kind": "Ok"}));
                            from = n;
                        }
                    }
                }
                Err(m) => { let id = sink.id(); sink.emit(&json!({"ev": "VersionGetRun", "id": id, "tag": format!("vget:{mode}:{e}"), "mode": mode, "ecl": LEVEL_NAMES[e], "from": 0, "to": 0, "v": 0, "kind": m})); }
            }
        }
    }
}

/// C06: the data-codeword encoder alone (no ECC / placement): count-width classes, residues, spare bits 0..12.
pub fn encode(sink: &mut Sink, seed: u64, thorough: bool) {
    let mut r = rng(seed, 11);
    for v in 1..=40usize {
        for e in 0..4usize {
            for mode in 0..3usize {
                let cap = capacity(mode, e, v);
                let mut lens: Vec<usize> = vec![cap, cap.saturating_sub(1), cap.saturating_sub(2), 0];
                if thorough {
                    lens.extend([1usize, 2, 3, 4, 5, cap.saturating_sub(3), cap.saturating_sub(4), cap.saturating_sub(5), cap / 2, cap / 2 + 1, cap / 3]);
                    for _ in 0..4 { lens.push(r.gen_range(0..=cap)); }
                } else {
                    lens.push(r.gen_range(0..=cap));
                    lens.push([1usize, 2, 3, 4, 5][(v + e + mode) % 5].min(cap));
                }
                lens.sort(); lens.dedup();
                for n in lens {
                    let p = payload(&mut r, mode, n, false);
                    let p2 = p.clone();
                    let out = caught(move || verif::encode(&p2, LEVELS[e], MODES[mode], version(v)));
                    let id = sink.id();
                    let (kind, cw) = match out { Ok(c) => ("Ok".to_string(), c), Err(m) => (m, vec![]) };
                    sink.emit(&json!({"ev": "Encode", "id": id, "tag": format!("enc:{v}:{e}:{mode}"), "input": p, "mode": mode, "ecl": LEVEL_NAMES[e], "version": v, "kind": kind, "out": cw}));
                }
            }
        }
    }
}

/// C07: generator accessor for all 160 cells; remainders of b*x^k for the single-non-zero-byte basis; whole blocks.
pub fn rs(sink: &mut Sink, seed: u64, thorough: bool) {
    let mut r = rng(seed, 12);
    for v in 1..=40usize {
        for e in 0..4usize {
            let c = verif::get_polynomial(version(v), LEVELS[e]).to_vec();
            let id = sink.id();
            sink.emit(&json!({"ev": "Poly", "id": id, "tag": format!("poly:{v}:{e}"), "version": v, "ecl": LEVEL_NAMES[e], "coeffs": c}));
        }
    }
    // generator per degree, taken from a cell that uses it
    let mut gens: std::collections::BTreeMap<usize, Vec<u8>> = Default::default();
    let mut lens: std::collections::BTreeSet<(usize, usize)> = Default::default();
    for v in 1..=40usize { for e in 0..4usize {
        let g = verif::get_polynomial(version(v), LEVELS[e]).to_vec();
        let t = verif::tables(version(v), LEVELS[e]);
        if t[3] > 0 { lens.insert((g.len() - 1, t[4])); }
        if t[5] > 0 { lens.insert((g.len() - 1, t[6])); }
        gens.entry(g.len() - 1).or_insert(g);
    } }
    let bytes: Vec<usize> = if thorough { (1..=255).collect() } else {
        let mut b = vec![1usize, 2, 0x1D, 0x80, 0xFF];
        while b.len() < 8 { let x = r.gen_range(1..=255usize); if !b.contains(&x) { b.push(x); } }
        b
    };
    for (&deg, g) in &gens {
        for &b in &bytes {
            // remainders of b * x^k, k = 0..122 (the longest data block is 123 codewords)
            let g2 = g.clone();
            let res = caught(move || {
                let mut rems: Vec<Vec<u8>> = Vec::new();
                for k in 0..123usize {
                    let mut data = vec![0u8; k + 1];
                    data[0] = b as u8;
                    let d = verif::division(&data, &g2);
                    rems.push(d[256 - g2.len()..255].to_vec());
                }
                rems
            });
            let id = sink.id();
            let (kind, rems) = match res { Ok(x) => ("Ok".to_string(), x), Err(m) => (m, vec![]) };
            sink.emit(&json!({"ev": "Division", "id": id, "tag": format!("div:{deg}"), "deg": deg, "byte": b, "kind": kind, "rems": rems}));
        }
    }
    // whole blocks of every (degree, block length) pair in use
    for &(deg, len) in &lens {
        let g = gens[&deg].clone();
        // many random contents per shape: defects of the division that depend on intermediate values are rare (1 in 10^3 blocks)
        let styles = if thorough { 320 } else { 64 };
        for st in 0..styles {
            let mut data: Vec<u8> = (0..len).map(|_| r.gen()).collect();
            match (st + len + deg) % 8 {
                0 => { for x in data.iter_mut().take(1 + len / 4) { *x = 0; } }                 // leading zeros
                1 => { let a = len / 3; for x in data[a..a + (len / 3).max(1)].iter_mut() { *x = 0; } } // interior zero run
                2 => { for x in data.iter_mut() { *x = 0; } }
                3 => { for x in data.iter_mut() { *x = 0xFF; } }
                4 => { for (i, x) in data.iter_mut().enumerate() { if i % 2 == 1 { *x = 0; } } }
                5 => { let k = data.len() - 1; data[k] = 0; data[0] = 0; }
                _ => {}
            }
            let (d2, g2) = (data.clone(), g.clone());
            let res = caught(move || { let d = verif::division(&d2, &g2); d[256 - g2.len()..255].to_vec() });
            let id = sink.id();
            let (kind, out) = match res { Ok(x) => ("Ok".to_string(), x), Err(m) => (m, vec![]) };
            sink.emit(&json!({"ev": "DivBlock", "id": id, "tag": format!("divblock:{deg}:{len}"), "deg": deg, "data": data, "kind": kind, "out": out}));
        }
    }
}

/// Hard-coded tables, all 160 cells: totals, remainder bits, data codewords, block groups, side, count widths, alignment centres
pub fn tables(sink: &mut Sink) {
    for v in 1..=40usize {
        for e in 0..4usize {
            let t = verif::tables(version(v), LEVELS[e]);
            let cci: Vec<usize> = (0..3).map(|m| verif::cci_bits(version(v), MODES[m])).collect();
            let al = verif::alignment_centres(version(v));
            let id = sink.id();
            sink.emit(&json!({"ev": "Tables", "id": id, "tag": format!("tables:{v}:{e}"), "version": v, "ecl": LEVEL_NAMES[e],
                              "t": t.to_vec(), "cci": cci, "align": al,
                              "format": (0..8).map(|m| verif::format_information(LEVELS[e], MASKS[m]) as u32).collect::<Vec<_>>(),
                              "vinfo": verif::version_information(version(v))}));
        }
    }
}

fn mat_event(qr: &fast_qr::QRCode) -> (Vec<Vec<u32>>, Vec<Vec<u32>>) { pack_matrix(&qr_modules(qr), qr.size) }

/// C03/C15: the blank symbol of all 40 versions; C08: each mask sweep alone on blank / all-dark / random fills.
pub fn maskop(sink: &mut Sink, seed: u64, thorough: bool) {
    let mut r = rng(seed, 13);
    for v in 1..=40usize {
        let qr = verif::blank(version(v));
        let (vals, types) = mat_event(&qr);
        let id = sink.id();
        let tail = qr.data[qr.size * qr.size..].iter().all(|m| m.0 == 0);
        sink.emit(&json!({"ev": "Blank", "id": id, "tag": format!("blank:{v}"), "version": v, "size": qr.size, "vals": vals, "types": types, "tail_clean": tail}));
        for m in 0..8usize {
            for fill in 0..3usize {
                if !thorough && v > 10 && (v + m + fill) % 3 != 0 { continue; }
                let seedcw: Vec<u8> = match fill { 0 => vec![0u8; total_cw(v)], 1 => vec![0xFFu8; total_cw(v)], _ => (0..total_cw(v)).map(|_| r.gen()).collect() };
                let res = caught(move || {
                    let mut q = verif::blank(version(v));
                    verif::place(&mut q, &seedcw, version(v));
                    let before = q.clone();
                    verif::apply_mask(&mut q, MASKS[m]);
                    (before, q)
                });
                let id = sink.id();
                match res {
                    Ok((before, after)) => {
                        let (bv, bt) = mat_event(&before);
                        let (av, at) = mat_event(&after);
                        let tail = after.data[after.size * after.size..].iter().all(|m| m.0 == 0);
                        sink.emit(&json!({"ev": "MaskOp", "id": id, "tag": format!("maskop:{v}:{m}:{fill}"), "version": v, "size": before.size, "mask": m, "kind": "Ok",
                                          "before": bv, "types": bt, "after": av, "types_after": at, "tail_clean": tail}));
                    }
                    Err(k) => sink.emit(&json!({"ev": "MaskOp", "id": id, "tag": format!("maskop:{v}:{m}:{fill}"), "version": v, "size": 0, "mask": m, "kind": k})),
                }
            }
        }
    }
}

/// C09: the classifier alone
pub fn bestmode(sink: &mut Sink, seed: u64, thorough: bool) {
    let mut r = rng(seed, 14);
    let n = if thorough { 100_000 } else { 6_000 };
    for i in 0..n {
        let len = if i % 10 == 0 { r.gen_range(0..2000) } else { r.gen_range(0..24) };
        let base = i % 3;
        let mut p = payload(&mut r, base, len, false);
        if len > 0 && i % 2 == 0 { let at = r.gen_range(0..len); p[at] = r.gen(); }
        let out = mode_num(verif::best_encoding(&p));
        let id = sink.id();
        sink.emit(&json!({"ev": "BestMode", "id": id, "tag": format!("bestmode:{base}"), "input": p, "out": out}));
    }
    for (cat, t) in unicode_texts(seed, thorough) {
        let t2 = t.clone();
        let out = match caught(move || mode_num(verif::best_encoding(&t2))) { Ok(m) => m, Err(_) => -2 };
        let id = sink.id();
        sink.emit(&json!({"ev": "BestMode", "id": id, "tag": format!("bestmode:unicode:{cat}"), "input": t, "out": out}));
    }
}

/// C11: the candidates as the selection loop saw them (mask, score used for ranking, candidate matrix) and the choice.
pub fn candidates(sink: &mut Sink, seed: u64, thorough: bool, corpus: &str) {
    let mut r = rng(seed, 15);
    let mut specs: Vec<BuildSpec> = Vec::new();
    // inputs kept by the coverage-guided fuzzer (content the crate may treat specially), automatic mask only
    if !corpus.is_empty() {
        for mut st in crate::scen_build::discovered(corpus).into_iter().filter(|s| s.mask.is_none()) { st.tag = "cand:discovered".into(); specs.push(st); }
    }
    let mk = |input: Vec<u8>, e: Option<usize>, mode: Option<usize>, v: Option<usize>, mask: Option<usize>, tag: String| BuildSpec { input, ecl: e, mode, version: v, mask, grp: 0, tag, lite: false };
    // the two witnesses of the design document first
    specs.push(mk(b"12345".to_vec(), None, None, None, None, "cand:witness".into()));
    specs.push(mk(b"7".to_vec(), None, None, None, None, "cand:witness".into()));
    // Small symbols: many more inputs are built than are judged.  Only a flipped arg-min is observable, and a flip needs
    // a close call, so the inputs whose two best recorded scores are closest are kept (plus a random share).  The crate's
    // own scores only SELECT inputs here; the verdict is TLC's, on the documented penalty of the recorded candidates.
    let (pool, keep_close, keep_random) = if thorough { (40_000usize, 2400usize, 600usize) } else { (12_000, 700, 200) };
    let mut scored: Vec<(u32, BuildSpec)> = Vec::new();
    for i in 0..pool {
        let v = 1 + i % 4;
        let e = (i / 4) % 4;
        let mode = (i / 16) % 3;
        let cap = capacity(mode, e, v);
        let n = r.gen_range(0..=cap);
        let s = mk(payload(&mut r, mode, n, false), Some(e), if i % 2 == 0 { Some(mode) } else { None }, Some(v), if i % 97 == 0 { Some(i % 8) } else { None }, format!("cand:{v}:{e}"));
        verif::start_recording();
        let _ = std::panic::catch_unwind(std::panic::AssertUnwindSafe(|| s.builder().build().is_ok()));
        let mut sc: Vec<u32> = verif::take_candidates().iter().map(|c| c.score).collect();
        sc.sort();
        let margin = if sc.len() >= 2 { sc[1] - sc[0] } else { 0 };
        scored.push((margin, s));
    }
    let mut idx: Vec<usize> = (0..scored.len()).collect();
    idx.sort_by_key(|&i| (scored[i].0, i));
    let mut chosen: Vec<usize> = idx[..keep_close.min(idx.len())].to_vec();
    for k in 0..keep_random { let i = idx[keep_close + (k * 7919) % (idx.len() - keep_close)]; if !chosen.contains(&i) { chosen.push(i); } }
    chosen.sort();
    for i in chosen { let mut s = scored[i].1.clone(); s.tag = format!("{}:m{}", s.tag, scored[i].0.min(9)); specs.push(s); }
    // uniform contents (one character repeated up to capacity): the highest penalties a symbol can reach, far above random payloads
    let uni_versions: &[usize] = if thorough { &[5, 10, 20, 27, 33, 36, 39, 40] } else { &[10, 33, 40] };
    for (i, &v) in uni_versions.iter().enumerate() {
        for (j, (mode, ch)) in [(2usize, b't'), (2, b'!'), (2, 0x00u8), (0, b'7'), (1, b'A'), (2, b'~')].into_iter().enumerate() {
            if !thorough && (i + j) % 2 == 1 { continue; }
            let e = (i + j) % 4;
            let cap = capacity(mode, e, v);
            let lo = capacity(mode, e, v - 1) + 1;
            let n = if j % 2 == 0 { cap } else { (lo + cap) / 2 };
            specs.push(mk(vec![ch; n], Some(e), if j % 3 == 0 { None } else { Some(mode) }, None, None, format!("cand:uniform:{v}")));
        }
    }
    // periodic contents (periods of the mask patterns and of the symbol width) and user-like texts: strongly patterned candidates
    for (i, st) in crate::scen_build::structured(seed, thorough).into_iter().filter(|s| s.tag.starts_with("real:")).enumerate() {
        if !thorough && i % 4 != 0 { continue; }
        specs.push(mk(st.input, st.ecl, None, None, None, "cand:real".into()));
    }
    // Candidates SHAPED at the module level: the payload is chosen so that, under mask m, the data modules it controls come out all
    // dark, all light, in stripes (both directions, two widths), as a checkerboard or as 2x2 tiles - the extremes of the run, block and
    // window terms (error-correction modules stay as they fall).  Byte mode, level L, full capacity.
    for &v in (if thorough { &[1usize, 2, 3, 5, 7, 10][..] } else { &[1usize, 3, 7][..] }) {
        let e = 0usize;
        let where_ = bit_modules(v, e);
        let n = 17 + 4 * v;
        let cap = capacity(2, e, v);
        let head = 4 + if v < 10 { 8 } else { 16 };
        for m in 0..8usize { for k in 0..8usize {
            if !thorough && (m + k + v) % 3 != (seed % 3) as usize { continue; }
            let mut p = vec![0u8; cap];
            for j in 0..cap { for b in 0..8 {
                let idx = where_.get(head + 8 * j + b).copied().unwrap_or(0);
                let (i, jx) = (idx / n, idx % n);
                let want_dark = match k { 0 => true, 1 => false, 2 => jx % 2 == 0, 3 => i % 2 == 0, 4 => (i + jx) % 2 == 0, 5 => (i / 2 + jx / 2) % 2 == 0, 6 => jx % 6 < 3, _ => i % 8 < 5 };
                if want_dark != mask_bit(m, i, jx) { p[j] |= 0x80 >> b; }       // module = data XOR mask flip
            } }
            specs.push(mk(p, Some(e), Some(2), Some(v), None, format!("cand:shaped:{v}:{k}")));
        } }
    }
    // Exact steps of the dark-ratio term: it changes at 40% and 60% dark, and a symbol can sit EXACTLY on such a step only when
    // 5 divides its side (versions 2, 7, 12, ... 37).  A steered search looks for payloads where a candidate has exactly 2/5 or 3/5
    // of its modules dark AND is within ten points of the best other candidate: the inputs where an off-by-one-step in that term
    // flips the choice.  Random payloads never land there.  Steering uses the stage hooks (where each payload bit lands) and the
    // crate's recorded scores; it only SELECTS inputs, the verdict is TLC's on the documented penalty of the recorded candidates.
    let step_versions: &[usize] = if thorough { &[2, 7, 12, 17, 22, 27, 32, 37] } else { &[7, 12, 17] };
    let budget = if thorough { 80_000usize } else { 9_000 };
    for (vi, &v) in step_versions.iter().enumerate() {
        let per_version = budget / step_versions.len();
        let want = if thorough { 6 } else { 2 };
        let _ = vi;
        let found = step_search(&mut r, v, 0, per_version, want, if thorough { 450 } else { 160 });     // level L: the largest share of modules under the payload's control
        if found.is_empty() { specs.push(mk(vec![0xFF; capacity(2, 0, v)], Some(0), Some(2), Some(v), None, format!("cand:stepnone:{v}"))); }
        for p in found { specs.push(mk(p, Some(0), Some(2), Some(v), None, format!("cand:step:{v}"))); }
    }
    let mid = if thorough { 220 } else { 22 };
    for i in 0..mid {
        let v = 5 + i % 11;
        let e = i % 4;
        let mode = i % 3;
        let cap = capacity(mode, e, v);
        let n = r.gen_range(cap / 2..=cap);
        specs.push(mk(payload(&mut r, mode, n, false), Some(e), Some(mode), Some(v), None, format!("cand:{v}:{e}")));
    }
    let big: &[usize] = if thorough { &[20, 25, 32, 40] } else { &[25] };
    for (i, &v) in big.iter().enumerate() {
        let e = i % 4;
        let cap = capacity(2, e, v);
        specs.push(mk(payload(&mut r, 2, cap - i, false), Some(e), Some(2), Some(v), None, format!("cand:{v}:{e}")));
    }
    for s in specs {
        let s2 = s.clone();
        let res = caught(move || {
            verif::start_recording();
            let out = s2.builder().build();
            let c = verif::take_candidates();
            (out.map(Box::new).map_err(|e| err_name(&e)), c)
        });
        let id = sink.id();
        match res {
            Ok((Ok(qr), cands)) => {
                let cj: Vec<_> = cands.iter().map(|c| { let (v, _) = pack_matrix(&c.modules, c.size); json!({"mask": c.mask as usize, "score": c.score, "vals": v}) }).collect();
                sink.emit(&json!({"ev": "Candidates", "id": id, "tag": s.tag, "input": s.input, "opts": s.opts_json(), "kind": "Ok", "size": qr.size,
                                  "chosen": qr.mask.map(|m| m as i64).unwrap_or(-1), "cand": cj}));
            }
            Ok((Err(e), _)) => sink.emit(&json!({"ev": "Candidates", "id": id, "tag": s.tag, "input": s.input, "opts": s.opts_json(), "kind": e, "size": 0, "chosen": -1, "cand": []})),
            Err(k) => sink.emit(&json!({"ev": "Candidates", "id": id, "tag": s.tag, "input": s.input, "opts": s.opts_json(), "kind": k, "size": 0, "chosen": -1, "cand": []})),
        }
    }
}

/// Module index (row * side + column) of every bit of the data codewords of (version v, level e), found with the stage hooks:
/// `structure` of a unit vector tells where a data codeword lands in the interleaved stream, `place` of a one-bit stream where
/// that bit lands in the symbol.
fn bit_modules(v: usize, e: usize) -> Vec<usize> {
    let (ver, ecl) = (version(v), LEVELS[e]);
    let t = verif::tables(ver, ecl);
    let (total_cw, data_cw) = (t[0], t[2]);
    let base = { let mut q = verif::blank(ver); verif::place(&mut q, &vec![0u8; total_cw], ver); q };
    let n = base.size;
    let mut out = Vec::with_capacity(data_cw * 8);
    for d in 0..data_cw {
        let mut data = vec![0u8; data_cw]; data[d] = 1;
        let st = verif::structure(&data, ecl, ver);
        let k = st[..data_cw].iter().position(|&x| x != 0).unwrap_or(0);
        for b in 0..8 {
            let mut s = vec![0u8; total_cw]; s[k] = 0x80 >> b;
            let mut q = verif::blank(ver); verif::place(&mut q, &s, ver);
            out.push((0..n * n).find(|&i| q.data[i].0 != base.data[i].0).unwrap_or(0));
        }
    }
    out
}
fn mask_bit(m: usize, i: usize, j: usize) -> bool {
    match m { 0 => (i + j) % 2 == 0, 1 => i % 2 == 0, 2 => j % 3 == 0, 3 => (i + j) % 3 == 0, 4 => (i / 2 + j / 3) % 2 == 0,
              5 => (i * j) % 2 + (i * j) % 3 == 0, 6 => ((i * j) % 2 + (i * j) % 3) % 2 == 0, _ => ((i + j) % 2 + (i * j) % 3) % 2 == 0 }
}
/// Byte-mode payloads at capacity of (v, e) for which some mask candidate has exactly 2/5 or 3/5 dark modules and scores within
/// ten points of the best other candidate.
fn step_search(r: &mut rand::rngs::StdRng, v: usize, e: usize, budget: usize, want: usize, abandon: i64) -> Vec<Vec<u8>> {
    let debug = std::env::var("FQV_DEBUG").is_ok();
    let n = 17 + 4 * v;
    let total = (n * n) as i64;
    let cap = capacity(2, e, v);
    let where_ = bit_modules(v, e);
    let head = 4 + if v < 10 { 8 } else { 16 };
    let mk = |input: Vec<u8>| BuildSpec { input, ecl: Some(e), mode: Some(2), version: Some(v), mask: None, grp: 0, tag: String::new(), lite: false };
    // (dark count per candidate, score per candidate)
    let eval = |p: &Vec<u8>| -> Option<(Vec<i64>, Vec<i64>)> {
        let s = mk(p.clone());
        verif::start_recording();
        let _ = std::panic::catch_unwind(std::panic::AssertUnwindSafe(|| s.builder().build().is_ok()));
        let cs = verif::take_candidates();
        if cs.len() < 8 { return None; }
        Some((cs.iter().map(|k| k.modules[..k.size * k.size].iter().filter(|m| **m & 1 == 1).count() as i64).collect(), cs.iter().map(|k| k.score as i64).collect()))
    };
    let hit = |d: &Vec<i64>, sc: &Vec<i64>, target: i64| (0..8).any(|i| d[i] == target && (sc[i] - (0..8).filter(|&j| j != i).map(|j| sc[j]).min().unwrap_or(0)).abs() <= 10);
    // payload in which a share f of the bits is chosen so that the module comes out dark (or light) under mask m, the rest random
    let steer = |r: &mut rand::rngs::StdRng, m: usize, f: f64, dark: bool, by_density: bool| -> Vec<u8> {
        let mut p: Vec<u8> = (0..cap).map(|_| r.gen()).collect();
        for j in 0..cap { for b in 0..8 {
            if r.gen::<f64>() < f {
                // masks 2 and 3 flip a third of the modules only: plain bit density moves their dark ratio, without any correlation with the mask
                if by_density { if dark { p[j] |= 0x80 >> b } else { p[j] &= !(0x80 >> b) } continue; }
                let idx = where_.get(head + 8 * j + b).copied().unwrap_or(0);
                let flips = mask_bit(m, idx / n, idx % n);          // the module is data XOR flips
                let bit = dark != flips;
                if bit { p[j] |= 0x80 >> b } else { p[j] &= !(0x80 >> b) }
            }
        } }
        p
    };
    let mut found: Vec<Vec<u8>> = Vec::new();
    let mut tries = 0usize;
    let mut round = 0usize;
    while tries < budget && found.len() < want {
        round += 1;
        let by_density = round % 3 != 0;
        let m = if by_density { 2 + r.gen_range(0..2usize) } else { r.gen_range(0..8usize) };
        let dark = (round / 3) % 2 == 0;
        let target = if dark { total * 3 / 5 } else { total * 2 / 5 };
        let (Some((d0, _)), Some((d1, _))) = (eval(&steer(r, m, 0.0, dark, by_density)), eval(&steer(r, m, 1.0, dark, by_density))) else { tries += 2; continue };
        tries += 2;
        if debug { eprintln!("v={v} m={m} dark={dark} dens={by_density} d0={} d1={} target={target}", d0[m], d1[m]); }
        if (d1[m] - target) % 2 != 0 { continue; }                  // every RS block has even weight: the parity of a candidate's dark count is fixed
        if (d1[m] - d0[m]) == 0 || (target - d0[m]) * (d1[m] - d0[m]) < 0 || (target - d0[m]).abs() > (d1[m] - d0[m]).abs() { continue; }
        let f = (target - d0[m]) as f64 / (d1[m] - d0[m]) as f64;
        let mut p = steer(r, m, f, dark, by_density);
        let Some((mut d, mut sc)) = eval(&p) else { continue };
        tries += 1;
        let gap = |sc: &Vec<i64>| (sc[m] - (0..8).filter(|&j| j != m).map(|j| sc[j]).min().unwrap_or(0)).abs();
        if gap(&sc) > abandon { if debug { eprintln!("v={v} m={m} dark={dark} dens={by_density} abandoned, gap {}", gap(&sc)); } continue; }     // candidate m is not in contention: another start is cheaper than a long climb
        let mut moves = 0;
        let (mut exacts, mut mingap) = (0usize, i64::MAX);
        while moves < 900 && tries < budget {
            if hit(&d, &sc, target) { break; }
            let mut q = p.clone();
            let at = r.gen_range(0..cap * 8);
            // far from the step: set the bit the way that moves candidate m towards it; near the step: any flip (the error-correction bits re-randomise)
            let idx = where_.get(head + at).copied().unwrap_or(0);
            let makes_dark = if by_density { true } else { !mask_bit(m, idx / n, idx % n) };            // data bit value that (more often than not) makes this module dark under mask m
            let need_more = d[m] < target;
            if (d[m] - target).abs() > 6 { let bit = makes_dark == need_more; if bit { q[at / 8] |= 0x80 >> (at % 8) } else { q[at / 8] &= !(0x80 >> (at % 8)) } }
            else { q[at / 8] ^= 0x80 >> (at % 8); }
            if q == p { continue; }
            let Some((d2, sc2)) = eval(&q) else { break };
            tries += 1; moves += 1;
            if d2[m] == target { exacts += 1; mingap = mingap.min(gap(&sc2)); }
            let (far, far2) = ((d[m] - target).abs(), (d2[m] - target).abs());
            // outside the band: get closer; inside it: stay inside and bring candidate m's score towards the best other one
            if (far > 6 && far2 < far) || (far <= 6 && far2 <= 6 && gap(&sc2) <= gap(&sc).max(10)) || hit(&d2, &sc2, target) { p = q; d = d2; sc = sc2; }
        }
        if debug { eprintln!("v={v} m={m} dark={dark} dens={by_density} f={f:.2} tries={tries} exacts={exacts} mingap={mingap} dist={} gap={} hit={}", d[m] - target, gap(&sc), hit(&d, &sc, target)); }
        if hit(&d, &sc, target) { found.push(p); }
    }
    found
}

/// Bit container as its own little machine: random (value, width) pushes against a bit-sequence model
pub fn compact(sink: &mut Sink, seed: u64, thorough: bool) {
    let mut r = rng(seed, 16);
    for i in 0..(if thorough { 4000 } else { 400 }) {
        let k = r.gen_range(1..20);
        let items: Vec<(usize, usize)> = (0..k).map(|_| { let w = r.gen_range(1..=16usize); (r.gen_range(0..(1usize << w)), w) }).collect();
        let it2 = items.clone();
        let res = caught(move || verif::compact_push(&it2));
        let id = sink.id();
        let (kind, data, len) = match res { Ok((d, l)) => ("Ok".to_string(), d, l), Err(m) => (m, vec![], 0) };
        sink.emit(&json!({"ev": "Compact", "id": id, "tag": format!("compact:{}", i % 4), "items": items.iter().map(|x| vec![x.0, x.1]).collect::<Vec<_>>(), "kind": kind, "data": data, "len": len}));
    }
}

/// Birthday sweep for content-keyed shortcuts in the block structure stage (a block served from a cache / de-duplication table keyed by
/// a digest of its content instead of being divided): millions of random payloads for the cells with the most blocks go through the
/// encode and structure stages only (hooks; about 50 microseconds each), and a payload is KEPT when some block of its interleaved
/// stream does not XOR to zero (every Reed-Solomon codeword of these codes does: the generator has the root 1).  Kept payloads - and
/// a few others, so that the scenario never is empty - are then built through the public API and judged in full by TLC.
/// The sweep only selects inputs.  With 3 240 block pairs per call, two million calls meet a 32-bit key collision with probability 0.78.
pub fn birthday(sink: &mut Sink, seed: u64, thorough: bool) {
    let trials: usize = if thorough { 24_000_000 } else { 2_000_000 };
    let nthreads = 14usize;
    let cells: [(usize, usize); 3] = [(40, 3), (40, 2), (36, 3)];        // (version, level): 81, 68 and 64 blocks
    let (tx, rx) = std::sync::mpsc::channel::<(usize, usize, Vec<u8>)>();
    let mut handles = Vec::new();
    for t in 0..nthreads {
        let tx = tx.clone();
        handles.push(std::thread::spawn(move || {
            let mut r = rng(seed, 500 + t as u64);
            for i in 0..trials / nthreads {
                let (v, e) = cells[if i % 8 == 7 { 1 + i % 2 } else { 0 }];
                let cap = capacity(2, e, v);
                let mut p: Vec<u8> = vec![0u8; cap];
                r.fill(&mut p[..]);
                let (ver, ecl) = (version(v), LEVELS[e]);
                let res = std::panic::catch_unwind(std::panic::AssertUnwindSafe(|| {
                    let data = verif::encode(&p, ecl, fast_qr::Mode::Byte, ver);
                    let st = verif::structure(&data, ecl, ver);
                    let tb = verif::tables(ver, ecl);
                    let (total, ndata, g1c, g1s, g2c, g2s) = (tb[0], tb[2], tb[3], tb[4], tb[5], tb[6]);
                    let nb = g1c + g2c;
                    let ec = (total - ndata) / nb;
                    // XOR of every block of the interleaved stream: data codeword k of block b, then its error-correction codewords
                    let mut x = vec![0u8; nb];
                    let mut idx = 0usize;
                    for k in 0..g1s.max(g2s) { for b in 0..nb { let len = if b < g1c { g1s } else { g2s }; if k < len { x[b] ^= st[idx]; idx += 1; } } }
                    for _k in 0..ec { for b in 0..nb { x[b] ^= st[idx]; idx += 1; } }
                    x.iter().any(|&z| z != 0) || idx != total
                }));
                let suspicious = res.unwrap_or(true);
                if suspicious || (t == 0 && i < 2) { let _ = tx.send((v, e, p)); }
            }
        }));
    }
    drop(tx);
    for h in handles { let _ = h.join(); }
    let mut kept: Vec<(usize, usize, Vec<u8>)> = rx.try_iter().collect();
    kept.truncate(40);
    for (i, (v, e, p)) in kept.into_iter().enumerate() {
        let s = BuildSpec { input: p, ecl: Some(e), mode: Some(2), version: Some(v), mask: Some(i % 8), grp: 0, tag: format!("birthday:{v}:{e}"), lite: false };
        sink.build(&s);
    }
}

/// C14 where the mask selection could remember something: inputs whose two best candidates TIE exactly (found with the recorder among
/// serial-numbered payloads of one length, so that all of them get the same version) are each built right after eight different
/// predecessors of the same version - one whose selection ended on each mask (as far as the pool offers them) - on the one
/// long-lived executor thread.  The result of a request may not depend on what was built before it: all eight results must be equal.
/// Events carry the reported fields and a digest of the matrix.
pub fn tiewalk(sink: &mut Sink, seed: u64, thorough: bool) {
    let versions: &[(usize, usize)] = if thorough { &[(2, 18), (5, 55), (10, 140), (12, 200), (14, 250), (20, 480)] } else { &[(2, 18), (10, 140), (12, 200)] };
    let grp = 4_000_001u64;
    let mut seq = 0u64;
    let mut bid = 100u64;
    let mut emit = |sink: &mut Sink, seq: &mut u64, mut ev: Value| { *seq += 1; ev["seq"] = json!(*seq); ev["grp"] = json!(grp); ev["tid"] = json!(1); ev["id"] = json!(sink.id()); sink.emit(&ev); };
    for &(v, len) in versions {
        let pool = if thorough { 12000 } else if v >= 12 { 5000 } else { 2500 };
        let mut ties: Vec<Vec<u8>> = Vec::new();
        let mut by_winner: Vec<Option<Vec<u8>>> = vec![None; 8];
        for i in 0..pool {
            let serial = format!("{:08}", (seed as usize * 7919 + i * 31 + v * 1000) % 100_000_000);
            let mut p = format!("{serial}@tickets.example.org/v{v}/order?seat=").into_bytes();
            while p.len() < len { p.push(b'a' + ((p.len() * 7 + v) % 26) as u8); }
            p.truncate(len);
            let q = p.clone();
            let res = caught(move || { verif::start_recording(); let out = fast_qr::QRBuilder::new(q).build(); let c = verif::take_candidates(); (out.ok().map(|x| (x.size, x.mask.map(|m| m as usize))), c.iter().map(|k| k.score).collect::<Vec<u32>>()) });
            let Ok((Some((size, Some(w))), scores)) = res else { continue };
            if size != 17 + 4 * v || scores.len() != 8 { continue; }
            let mut s2 = scores.clone(); s2.sort();
            if s2[0] == s2[1] && ties.len() < (if thorough { 10 } else { 4 }) { ties.push(p.clone()); }
            if by_winner[w].is_none() { by_winner[w] = Some(p); }
        }
        let preds: Vec<Vec<u8>> = by_winner.into_iter().flatten().collect();
        if ties.is_empty() || preds.len() < 2 { let id = sink.id(); sink.emit(&json!({"ev": "FileSkip", "id": id, "tag": format!("tiewalk:none:{v}"), "fault": "no exact tie found"})); continue; }
        let mut known: std::collections::HashMap<Vec<u8>, u64> = Default::default();
        for t in &ties { for pr in &preds {
            for inp in [pr, t] {
                let b = match known.get(inp) { Some(b) => *b, None => { bid += 1; known.insert(inp.clone(), bid); emit(sink, &mut seq, json!({"ev": "HNew", "bid": bid, "tag": "hnew", "input": inp})); bid } };
                let q = inp.clone();
                let mut out = caught(move || match fast_qr::QRBuilder::new(q).build() { Ok(qr) => qr_json(&qr), Err(e) => json!({"kind": "Err", "why": err_name(&e)}) }).unwrap_or_else(|k| json!({"kind": k.split(':').next().unwrap_or("Panic"), "why": k}));
                if let Some(m) = out.as_object_mut() { m.remove("vals"); m.remove("types"); }
                emit(sink, &mut seq, json!({"ev": "HBuild", "bid": b, "tag": format!("tiewalk:{v}"), "lite": 1, "out": out}));
            }
        } }
    }
}
