//! C14: histories exported by TLC from spec/Builder.tla replayed on real QRBuilders with real threads, and
//! seeded concurrent programs (shared builders built concurrently, private builders mutated between builds,
//! all three renderers on shared QR codes).  Events carry (tid, seq); no cross-thread order is ever inferred.
use crate::common::*;
use crate::gen::*;
#[cfg(feature = "image")]
use crate::scen_render::*;
use fast_qr::{QRBuilder, QRCode};
use rand::Rng;
use serde_json::{json, Value};
use std::sync::{mpsc, Arc, RwLock};

const INPUTS: [&[u8]; 2] = [b"HELLO WORLD 123", b"3141592653"];
/// "rejected" mapping: builder 1 is REJECTED under half of the option values (forced Numeric cannot carry it: the crate panics, the
/// specification makes no claim about that build; forced version 1 is too small: documented error), builder 2 always builds.
/// Rejected requests are part of a history like any other build: what follows them on the same thread is judged as usual.
const INPUTS_REJ: [&[u8]; 2] = [b"HELLO WORLD 123 $%*+-./:", b"3141592653"];

fn concrete(o: &str, v: u64, rejected: bool) -> (usize, i64) {
    // (register index: 0 ecl 1 mode 2 version 3 mask, concrete value)
    if rejected {
        match o {
            "mode" => return (1, if v == 1 { 0 } else { 1 }),
            "version" => return (2, if v == 1 { 1 } else { 4 }),
            _ => {}
        }
    }
    match o {
        "ecl" => (0, if v == 1 { 0 } else { 3 }),
        "mode" => (1, if v == 1 { 1 } else { 2 }),
        "version" => (2, if v == 1 { 2 } else { 4 }),
        _ => (3, if v == 1 { 0 } else { 5 }),
    }
}
fn apply_set(b: &mut QRBuilder, reg: usize, val: i64) {
    match reg {
        0 => { b.ecl(LEVELS[val as usize]); }
        1 => { b.mode(MODES[val as usize]); }
        2 => { b.version(version(val as usize)); }
        _ => { b.mask(MASKS[val as usize]); }
    }
}
const REG_NAMES: [&str; 4] = ["ecl", "mode", "version", "mask"];
fn set_event(grp: u64, tid: u64, seq: u64, bid: u64, reg: usize, val: i64) -> Value {
    let v = if reg == 0 { json!(LEVEL_NAMES[val as usize]) } else { json!(val) };
    json!({"ev": "HSet", "grp": grp, "tid": tid, "seq": seq, "bid": bid, "tag": format!("hset:{}", REG_NAMES[reg]), "opt": REG_NAMES[reg], "val": v})
}
fn build_out(b: &QRBuilder) -> Value {
    match std::panic::catch_unwind(std::panic::AssertUnwindSafe(|| b.build())) {
        Ok(Ok(qr)) => qr_json(&qr),
        Ok(Err(e)) => json!({"kind": "Err", "why": err_name(&e)}),
        Err(p) => json!({"kind": "Panic", "why": format!("Panic:{}", panic_msg(p))}),
    }
}

type Job = (Arc<RwLock<QRBuilder>>, mpsc::Sender<()>, mpsc::Sender<Value>);

/// Worker threads that live for the whole scenario: thread t of the model is always the same OS thread, so state a build
/// leaves behind on its thread (thread-locals, per-thread scratch) is carried into the next build of that thread.
pub struct Workers { tx: Vec<mpsc::Sender<Job>> }
impl Workers {
    pub fn new(n: usize) -> Workers {
        let mut tx = Vec::new();
        for _ in 0..n {
            let (jtx, jrx) = mpsc::channel::<Job>();
            std::thread::Builder::new().stack_size(16 << 20).spawn(move || {
                for (b, go, out) in jrx { let g = b.read().unwrap(); let _ = go.send(()); let _ = out.send(build_out(&g)); }
            }).expect("worker thread");
            tx.push(jtx);
        }
        Workers { tx }
    }
}

/// One exported history on two builders; builds run on the worker threads, overlapping exactly as the history says.
fn run_history(sink: &mut Sink, workers: &Workers, grp: u64, hist: &[Value], rejected: bool) {
    let inputs = if rejected { INPUTS_REJ } else { INPUTS };
    let builders: Vec<Arc<RwLock<QRBuilder>>> = inputs.iter().map(|i| Arc::new(RwLock::new(QRBuilder::new(i.to_vec())))).collect();
    let mut seq = 0u64;
    for (i, inp) in inputs.iter().enumerate() {
        let id = sink.id(); seq += 1;
        sink.emit(&json!({"ev": "HNew", "id": id, "grp": grp, "tid": 0, "seq": seq, "bid": i + 1, "tag": "hnew", "input": inp.to_vec()}));
    }
    let mut inflight: std::collections::HashMap<u64, (u64, mpsc::Receiver<Value>)> = Default::default();
    for step in hist {
        let (op, t, b) = (step["op"].as_str().unwrap_or(""), step["t"].as_u64().unwrap_or(1), step["b"].as_u64().unwrap_or(1));
        match op {
            "set" => {
                let (reg, val) = concrete(step["o"].as_str().unwrap_or(""), step["v"].as_u64().unwrap_or(1), rejected);
                apply_set(&mut builders[b as usize - 1].write().unwrap(), reg, val);
                let id = sink.id(); seq += 1;
                let mut ev = set_event(grp, 0, seq, b, reg, val); ev["id"] = json!(id);
                sink.emit(&ev);
            }
            "build_start" => {
                let (tx, rx) = mpsc::channel();
                let (go_tx, go_rx) = mpsc::channel::<()>();
                let _ = workers.tx[(t as usize - 1) % workers.tx.len()].send((builders[b as usize - 1].clone(), go_tx, tx));
                let _ = go_rx.recv_timeout(std::time::Duration::from_secs(60));   // the worker holds the read lock: the build is in flight
                inflight.insert(t, (b, rx));
            }
            "build_end" => {
                if let Some((b, rx)) = inflight.remove(&t) {
                    let out = rx.recv_timeout(std::time::Duration::from_secs(60)).unwrap_or_else(|_| json!({"kind": "Timeout", "why": "watchdog"}));
                    let id = sink.id(); seq += 1;
                    sink.emit(&json!({"ev": "HBuild", "id": id, "grp": grp, "tid": t, "seq": seq, "bid": b, "tag": "hbuild:gen", "lite": 0, "out": out}));
                }
            }
            _ => {}
        }
    }
}

pub fn histories(sink: &mut Sink, behaviours: &str, grp0: u64, rejected: bool) {
    let mut grp = grp0;
    let workers = Workers::new(2);
    for l in std::fs::read_to_string(behaviours).unwrap_or_default().lines() {
        let Ok(b) = serde_json::from_str::<Value>(l) else { continue };
        if let Some(h) = b["hist"].as_array() { grp += 1; run_history(sink, &workers, grp, h, rejected); }
    }
}

fn fnv(data: &[u8]) -> [u32; 2] {
    let mut h: u64 = 0xcbf29ce484222325;
    for b in data { h ^= *b as u64; h = h.wrapping_mul(0x100000001b3); }
    [(h & 0x7fff_ffff) as u32, ((h >> 32) & 0x7fff_ffff) as u32]
}

#[cfg(feature = "image")]
/// Seeded concurrent programs: `nthreads` threads; a shared builder and shared QR codes; private builders mutated between builds.
pub fn threads(sink: &mut Sink, seed: u64, thorough: bool, grp0: u64) {
    let mut r = rng(seed, 41);
    let programs = if thorough { 400 } else { 40 };
    let mut grp = grp0;
    // Cold start: the very first builds and renderings of this process happen on 12 threads released together by a barrier
    // (whatever the crate initialises on first use is initialised under contention); all of them build the same request and
    // render their own result, so all results must be equal - and equal to what the same request gives later on.
    {
        grp += 1;
        let shared = Arc::new({ let mut b = QRBuilder::new(INPUTS[0].to_vec()); apply_set(&mut b, 0, 1); b });
        let barrier = Arc::new(std::sync::Barrier::new(12));
        let handles: Vec<_> = (1..=12u64).map(|t| { let (shared, barrier) = (shared.clone(), barrier.clone()); std::thread::spawn(move || {
            barrier.wait();
            let res = std::panic::catch_unwind(std::panic::AssertUnwindSafe(|| shared.build()));
            let mut evs = Vec::new();
            match res {
                Ok(Ok(qr)) => {
                    evs.push(json!({"ev": "HBuild", "tid": t, "seq": 1, "bid": 1000, "tag": "hbuild:cold", "lite": 0, "out": qr_json(&qr)}));
                    let before = qr_modules(&qr);
                    for (which, bytes) in [(0usize, qr.to_str().into_bytes()), (1, svg_builder(&[]).to_str(&qr).into_bytes()), (2, image_builder(&[]).to_pixmap(&qr).data().to_vec())] {
                        evs.push(json!({"ev": "HRender", "tid": t, "seq": 2 + which, "tag": format!("hrender:cold:{}", ["text", "svg", "raster"][which]), "qrid": 0, "renderer": which * 10 + 9,
                                        "hash": fnv(&bytes).to_vec(), "qr_unchanged": (before == qr_modules(&qr)) as u8}));
                    }
                }
                Ok(Err(e)) => evs.push(json!({"ev": "HBuild", "tid": t, "seq": 1, "bid": 1000, "tag": "hbuild:cold", "lite": 0, "out": {"kind": "Err", "why": err_name(&e)}})),
                Err(p) => evs.push(json!({"ev": "HBuild", "tid": t, "seq": 1, "bid": 1000, "tag": "hbuild:cold", "lite": 0, "out": {"kind": "Panic", "why": format!("Panic:{}", panic_msg(p))}})),
            }
            evs
        }) }).collect();
        let id = sink.id();
        sink.emit(&json!({"ev": "HNew", "id": id, "grp": grp, "tid": 0, "seq": 1, "bid": 1000, "tag": "hnew", "input": INPUTS[0].to_vec()}));
        let mut ev = set_event(grp, 0, 2, 1000, 0, 1); ev["id"] = json!(sink.id()); sink.emit(&ev);
        for h in handles { for mut e in h.join().unwrap_or_default() { e["id"] = json!(sink.id()); e["grp"] = json!(grp); sink.emit(&e); } }
    }
    // Burst: far more simultaneous builds than cores (160 threads, released together, each building a version-40 symbol 24 times): pools, free
    // lists and per-process tables sized for 'a few threads' overflow here.  Every result must equal the first one.
    {
        grp += 1;
        let input: Vec<u8> = { let mut r2 = rng(seed, 43); payload(&mut r2, 2, 2300, true) };       // a version-40 symbol: milliseconds per build, so that builds really overlap
        let shared = Arc::new({ let mut b = QRBuilder::new(input.clone()); apply_set(&mut b, 0, 1); b });
        let nthreads = if thorough { 400 } else { 160 };
        // released together by a flag (not a Barrier: if the system refuses some of the threads the others must still start)
        let go = Arc::new((std::sync::Mutex::new(false), std::sync::Condvar::new()));
        let handles: Vec<_> = (0..nthreads).map(|t| { let (shared, go) = (shared.clone(), go.clone()); std::thread::Builder::new().stack_size(2 << 20).spawn(move || {
            { let (m, cv) = &*go; let mut started = m.lock().unwrap_or_else(|e| e.into_inner()); while !*started { started = cv.wait(started).unwrap_or_else(|e| e.into_inner()); } }
            let mut outs: Vec<Value> = Vec::new();
            for k in 0..24 { let mut o = build_out(&shared); if let Some(m) = o.as_object_mut() { m.remove("vals"); m.remove("types"); } if k == 0 || k == 23 || o["kind"] != "Ok" { outs.push(o); } }
            (t, outs)
        }) }).filter_map(|h| h.ok()).collect();
        { let (m, cv) = &*go; *m.lock().unwrap_or_else(|e| e.into_inner()) = true; cv.notify_all(); }
        let id = sink.id();
        sink.emit(&json!({"ev": "HNew", "id": id, "grp": grp, "tid": 0, "seq": 1, "bid": 1000, "tag": "hnew", "input": input}));
        let mut ev = set_event(grp, 0, 2, 1000, 0, 1); ev["id"] = json!(sink.id()); sink.emit(&ev);
        for h in handles { match h.join() {
            Ok((t, outs)) => for (k, o) in outs.into_iter().enumerate() { let id = sink.id(); sink.emit(&json!({"ev": "HBuild", "id": id, "grp": grp, "tid": 400 + t, "seq": k + 1, "bid": 1000, "tag": "hbuild:burst", "lite": 1, "out": o})); },
            Err(_) => { let id = sink.id(); sink.emit(&json!({"ev": "HBuild", "id": id, "grp": grp, "tid": 399, "seq": 1, "bid": 1000, "tag": "hbuild:burst", "lite": 1, "out": {"kind": "Panic", "why": "Panic:thread of the burst died"}})); }
        } }
    }
    // Teardown: a build and three renderings issued from the destructor of a thread-local of the CALLER while the thread exits - with
    // the caller's thread-local registered before the thread's first build (so whatever the crate keeps per thread is destroyed first)
    // and after it.  Same request as a build in the thread's body: same result.
    for user_first in [true, false] {
        grp += 1;
        let shared = Arc::new({ let mut b = QRBuilder::new(INPUTS[1].to_vec()); apply_set(&mut b, 0, 2); b });
        struct Guard { b: Arc<QRBuilder>, tx: mpsc::Sender<Value> }
        impl Drop for Guard {
            fn drop(&mut self) {
                let out = build_out(&self.b);
                let _ = self.tx.send(json!({"what": "build", "out": out}));
                let r = std::panic::catch_unwind(std::panic::AssertUnwindSafe(|| {
                    let qr = self.b.build().ok()?;
                    Some((qr.to_str().into_bytes(), svg_builder(&[]).to_str(&qr).into_bytes(), image_builder(&[]).to_pixmap(&qr).data().to_vec()))
                }));
                let _ = self.tx.send(match r { Ok(Some((t, sv, px))) => json!({"what": "render", "hashes": [fnv(&t).to_vec(), fnv(&sv).to_vec(), fnv(&px).to_vec()]}), Ok(None) => json!({"what": "render", "hashes": []}), Err(_) => json!({"what": "render-panic"}) });
            }
        }
        thread_local! { static GUARD: std::cell::RefCell<Option<Guard>> = std::cell::RefCell::new(None); }
        let (tx, rx) = mpsc::channel::<Value>();
        let sh = shared.clone();
        let h = std::thread::spawn(move || {
            let install = |tx: mpsc::Sender<Value>, b: Arc<QRBuilder>| GUARD.with(|g| *g.borrow_mut() = Some(Guard { b, tx }));
            if user_first { install(tx.clone(), sh.clone()); }
            let body = build_out(&sh);
            let bq = sh.build().ok();
            let hashes = bq.map(|qr| vec![fnv(&qr.to_str().into_bytes()).to_vec(), fnv(&svg_builder(&[]).to_str(&qr).into_bytes()).to_vec(), fnv(&image_builder(&[]).to_pixmap(&qr).data().to_vec()).to_vec()]).unwrap_or_default();
            let _ = tx.send(json!({"what": "body", "out": body, "hashes": hashes}));
            if !user_first { install(tx.clone(), sh.clone()); }
        });
        let _ = h.join();
        let msgs: Vec<Value> = rx.try_iter().collect();
        let id = sink.id();
        sink.emit(&json!({"ev": "HNew", "id": id, "grp": grp, "tid": 0, "seq": 1, "bid": 1000, "tag": "hnew", "input": INPUTS[1].to_vec()}));
        let mut ev = set_event(grp, 0, 2, 1000, 0, 2); ev["id"] = json!(sink.id()); sink.emit(&ev);
        let mut seq = 0u64;
        let tag = if user_first { "teardown:userfirst" } else { "teardown:cratefirst" };
        let mut got = (false, false);
        for m in msgs {
            match m["what"].as_str().unwrap_or("") {
                "body" | "build" => {
                    if m["what"] == "build" { got.0 = true; }
                    seq += 1; let id = sink.id();
                    sink.emit(&json!({"ev": "HBuild", "id": id, "grp": grp, "tid": 300, "seq": seq, "bid": 1000, "tag": format!("hbuild:{tag}:{}", m["what"].as_str().unwrap_or("")), "lite": 0, "out": m["out"]}));
                    for (which, hsh) in m["hashes"].as_array().cloned().unwrap_or_default().into_iter().enumerate() {
                        seq += 1; let id = sink.id();
                        sink.emit(&json!({"ev": "HRender", "id": id, "grp": grp, "tid": 300, "seq": seq, "tag": format!("hrender:{tag}"), "qrid": 0, "renderer": which * 10 + 8, "hash": hsh, "qr_unchanged": 1}));
                    }
                }
                "render" => {
                    got.1 = true;
                    for (which, hsh) in m["hashes"].as_array().cloned().unwrap_or_default().into_iter().enumerate() {
                        seq += 1; let id = sink.id();
                        sink.emit(&json!({"ev": "HRender", "id": id, "grp": grp, "tid": 300, "seq": seq, "tag": format!("hrender:{tag}:drop"), "qrid": 0, "renderer": which * 10 + 8, "hash": hsh, "qr_unchanged": 1}));
                    }
                }
                _ => {}
            }
        }
        // the destructor did not report (it panicked past its own catch_unwind, or never ran): an outcome that is neither a symbol nor a documented error
        if !(got.0 && got.1) {
            seq += 1; let id = sink.id();
            sink.emit(&json!({"ev": "HBuild", "id": id, "grp": grp, "tid": 300, "seq": seq, "bid": 1000, "tag": format!("hbuild:{tag}:missing"), "lite": 0, "out": {"kind": "Panic", "why": "Panic:no result from a build or rendering issued while the thread was exiting"}}));
        }
    }
    for pi in 0..programs {
        grp += 1;
        let nthreads = [1usize, 2, 4, 8, 16][pi % 5];
        // shared builder, configured before the threads start
        let mut shared = QRBuilder::new(INPUTS[pi % 2].to_vec());
        let mut events: Vec<Value> = Vec::new();
        let mut seq = 0u64;
        let mut push = |events: &mut Vec<Value>, seq: &mut u64, mut ev: Value| { *seq += 1; ev["seq"] = json!(*seq); ev["grp"] = json!(grp); events.push(ev); };
        push(&mut events, &mut seq, json!({"ev": "HNew", "tid": 0, "bid": 1000, "tag": "hnew", "input": INPUTS[pi % 2].to_vec()}));
        for _ in 0..r.gen_range(0..4) {
            let reg = r.gen_range(0..4usize);
            let val: i64 = match reg { 0 => r.gen_range(0..4), 1 => r.gen_range(1..3), 2 => r.gen_range(2..6), _ => r.gen_range(0..8) };
            apply_set(&mut shared, reg, val);
            push(&mut events, &mut seq, set_event(grp, 0, 0, 1000, reg, val));
        }
        let shared = Arc::new(shared);
        // two different QR codes of the SAME version: a renderer must tell them apart (its output depends on the QR code, not on its size)
        let shared_qr: Arc<Vec<QRCode>> = Arc::new({
            let a = qr_of(1 + pi % 5, seed + pi as u64);
            // the second code must differ from the first (two seeds can give the same one-byte payload at version 1)
            let mut k = 17u64;
            let mut b = qr_of(1 + pi % 5, seed + k + pi as u64);
            while qr_modules(&b) == qr_modules(&a) && k < 17 * 40 { if std::env::var("FQV_DEBUG").is_ok() { eprintln!("threads: program {pi}: second shared code equal to the first, drawing another"); } k += 17; b = qr_of(1 + pi % 5, seed + k + pi as u64); }
            vec![a, b]
        });
        // renderer programs with different numbers of shape layers and options; every thread uses all of them in its own order
        let render_progs: Arc<Vec<Vec<Call>>> = Arc::new(vec![
            vec![Call::Margin(pi % 5), Call::Shape(pi % 6)],
            vec![Call::Shape((pi + 1) % 6), Call::ShapeColor(pi % 6, vec![200, 30, 40, 255]), Call::Margin(1)],
            vec![],
            vec![Call::ShapeColor(0, vec![18, 52, 86, 255]), Call::Shape(1), Call::Shape(5), Call::BackgroundColor(vec![250, 240, 230, 255])],
        ]);
        let mut handles = Vec::new();
        for t in 1..=nthreads {
            let (shared, shared_qr, render_progs) = (shared.clone(), shared_qr.clone(), render_progs.clone());
            let tseed = seed.wrapping_mul(1000003).wrapping_add((pi * 31 + t) as u64);
            handles.push(std::thread::spawn(move || {
                let mut r = rng(tseed, 42);
                let mut evs: Vec<Value> = Vec::new();
                let mut seq = 0u64;
                let tid = t as u64;
                let bid = (t * 10) as u64;
                let input: Vec<u8> = payload(&mut r, 1, 5 + t % 20, false);
                let mut private = QRBuilder::new(input.clone());
                seq += 1; evs.push(json!({"ev": "HNew", "tid": tid, "seq": seq, "bid": bid, "tag": "hnew", "input": input}));
                for _ in 0..9 {
                    match r.gen_range(0..7) {
                        0 | 1 => {
                            let reg = r.gen_range(0..4usize);
                            let val: i64 = match reg { 0 => r.gen_range(0..4), 1 => r.gen_range(1..3), 2 => r.gen_range(3..7), _ => r.gen_range(0..8) };
                            apply_set(&mut private, reg, val);
                            seq += 1; let mut e = set_event(0, tid, seq, bid, reg, val); e["seq"] = json!(seq); evs.push(e);
                        }
                        2 => { seq += 1; evs.push(json!({"ev": "HBuild", "tid": tid, "seq": seq, "bid": bid, "tag": "hbuild:private", "lite": 0, "out": build_out(&private)})); }
                        3 => { seq += 1; evs.push(json!({"ev": "HBuild", "tid": tid, "seq": seq, "bid": 1000, "tag": "hbuild:shared", "lite": 0, "out": build_out(&shared)})); }
                        k => {
                            let q = &shared_qr[k % 2];
                            let before = qr_modules(q);
                            let which = r.gen_range(0..3usize);
                            let pidx = if which == 0 { 0 } else { r.gen_range(0..render_progs.len()) };
                            let render_prog = &render_progs[pidx];
                            let bytes: Vec<u8> = match which {
                                0 => q.to_str().into_bytes(),
                                1 => svg_builder(render_prog).to_str(q).into_bytes(),
                                _ => image_builder(render_prog).to_pixmap(q).data().to_vec(),
                            };
                            seq += 1;
                            // renderer id = kind and program: the memo of the trace specification is keyed by (QR code, renderer id)
                            evs.push(json!({"ev": "HRender", "tid": tid, "seq": seq, "tag": format!("hrender:{}", ["text", "svg", "raster"][which]), "qrid": k % 2, "renderer": which * 10 + pidx,
                                            "hash": fnv(&bytes).to_vec(), "qr_unchanged": (before == qr_modules(q)) as u8}));
                        }
                    }
                    if r.gen_range(0..3) == 0 { std::thread::yield_now(); }
                }
                evs
            }));
        }
        let mut per_thread: Vec<Vec<Value>> = Vec::new();
        for h in handles { per_thread.push(h.join().unwrap_or_else(|_| vec![json!({"ev": "HBuild", "tid": 99, "seq": 1, "bid": 1000, "tag": "hbuild:thread-panicked", "lite": 0, "out": {"kind": "Panic", "why": "thread panicked"}})])); }
        for mut e in events { e["id"] = json!(sink.id()); sink.emit(&e); }
        for evs in per_thread { for mut e in evs { e["id"] = json!(sink.id()); e["grp"] = json!(grp); sink.emit(&e); } }
    }
}

/// Aftermath: a request, then a REJECTED or failing or very different request, then the first request again, all on the one
/// long-lived executor thread.  Rejected = the forced mode cannot carry the input (the crate panics; the specification makes no
/// claim about that build, BuildUnspecified) - but the builds AFTER it are ordinary builds and are judged like any other.
pub fn aftermath(sink: &mut Sink, seed: u64, thorough: bool, grp0: u64) {
    let mut r = rng(seed, 77);
    let rounds = if thorough { 720 } else { 96 };
    let mut grp = grp0;
    for i in 0..rounds {
        grp += 1;
        let mut seq = 0u64;
        // the request under observation
        let gm = i % 3;
        let glen = [1usize, 2, 7, 11, 25, 60, 150][i % 7];
        let ginput = payload(&mut r, gm, glen, gm > 0);
        let mut good = QRBuilder::new(ginput.clone());
        let mut gsets: Vec<(usize, i64)> = Vec::new();
        if i % 2 == 0 { gsets.push((1, gm as i64)); }
        if i % 4 < 2 { gsets.push((0, (i % 4) as i64)); }
        if i % 5 == 0 { gsets.push((3, (i % 8) as i64)); }
        for &(reg, val) in &gsets { apply_set(&mut good, reg, val); }
        // the disturbance
        let kind = i % 8;
        let (dinput, dsets): (Vec<u8>, Vec<(usize, i64)>) = match kind {
            0 => { let mut d = payload(&mut r, 0, 1 + i % 40, false); let at = r.gen_range(0..d.len()); d[at] = b'x'; (d, vec![(1, 0)]) }           // digit string with one letter, forced Numeric
            1 => { let mut d = payload(&mut r, 1, 2 + i % 50, false); let at = r.gen_range(0..d.len()); d[at] = b'q'; (d, vec![(1, 1)]) }           // lower-case letter, forced Alphanumeric
            2 => (payload(&mut r, 2, 8000, false), vec![]),                                                                                   // beyond any capacity: EncodedData
            3 => (payload(&mut r, 2, 100, false), vec![(2, 1)]),                                                                              // forced version too small: SpecifiedVersion
            4 => { let mut d = payload(&mut r, 0, 3000, false); d.push(b'/'); (d, vec![(1, 0), (0, 0)]) }                                     // rejected at the very end of a long request
            5 => { let mut d = payload(&mut r, 1, 900, false); d[0] = 0xC3; (d, vec![(1, 1), (2, 40)]) }                                      // rejected at the very start, largest version forced
            6 => (payload(&mut r, 2, 2900, false), vec![(0, 0)]),                                                                             // a valid build of the largest version
            _ => (vec![b'7'; 1 + i % 9], vec![(1, 0), (2, 40), (0, 3)]),                                                                      // a valid build with the longest padding there is
        };
        let mut bad = QRBuilder::new(dinput.clone());
        for &(reg, val) in &dsets { apply_set(&mut bad, reg, val); }
        let (good, bad) = (Arc::new(good), Arc::new(bad));
        let mut emit = |sink: &mut Sink, seq: &mut u64, mut ev: Value| { *seq += 1; ev["seq"] = json!(*seq); ev["grp"] = json!(grp); ev["tid"] = json!(1); ev["id"] = json!(sink.id()); sink.emit(&ev); };
        emit(sink, &mut seq, json!({"ev": "HNew", "bid": 1, "tag": "hnew", "input": ginput}));
        for &(reg, val) in &gsets { emit(sink, &mut seq, set_event(grp, 1, 0, 1, reg, val)); }
        emit(sink, &mut seq, json!({"ev": "HNew", "bid": 2, "tag": "hnew", "input": dinput}));
        for &(reg, val) in &dsets { emit(sink, &mut seq, set_event(grp, 1, 0, 2, reg, val)); }
        let run = |b: &Arc<QRBuilder>| { let b = b.clone(); guarded(120, move || build_out(&b)).unwrap_or_else(|k| json!({"kind": k.split(':').next().unwrap_or("Panic"), "why": k})) };
        let plan: &[usize] = if i % 3 == 0 { &[1, 2, 1] } else if i % 3 == 1 { &[2, 1, 2, 2, 1] } else { &[1, 2, 2, 1, 1] };
        for &who in plan {
            let out = run(if who == 1 { &good } else { &bad });
            // the disturbing build itself is recorded without its matrix (judged for its outcome only); the observed request in full
            let lite = if who == 2 { 1 } else { 0 };
            let out = if lite == 1 && out["kind"] == "Ok" { let mut o = out; o["vals"] = json!([]); o["types"] = json!([]); o } else { out };
            emit(sink, &mut seq, json!({"ev": "HBuild", "bid": who, "tag": format!("aftermath:{kind}"), "lite": lite, "out": out}));
        }
    }
}

/// Walk: hundreds of DIFFERENT requests (all versions, modes, levels, masks) on the one long-lived executor thread, each issued three
/// times at distant points of a shuffled sequence.  Whatever a build leaves behind for the next one (a cache keyed by version or size,
/// a table patched in place, a buffer sized by the previous symbol) shows as a request whose later result differs from its first.
/// Events carry the reported fields and a digest of the matrix (the matrices themselves are judged by the build scenarios).
pub fn walk(sink: &mut Sink, seed: u64, thorough: bool, grp0: u64) {
    use rand::seq::SliceRandom;
    let mut r = rng(seed, 78);
    let nreq = if thorough { 1500 } else { 260 };
    let grp = grp0 + 1;
    struct Req { input: Vec<u8>, sets: Vec<(usize, i64)>, builder: Arc<QRBuilder> }
    let mut reqs: Vec<Req> = Vec::new();
    for i in 0..nreq {
        let mode = i % 3;
        let v = if i % 5 == 0 { 0 } else { [1usize, 2, 3, 6, 7, 9, 10, 13, 20, 26, 27, 32, 39, 40][r.gen_range(0..14)] };
        let e = r.gen_range(0..4usize);
        let cap = if v == 0 { 120 } else { capacity(mode, e, v).min(if thorough { 3000 } else { 400 }) };
        let n = r.gen_range(0..=cap);
        let input = payload(&mut r, mode, n, mode > 0);
        let mut sets: Vec<(usize, i64)> = vec![(0, e as i64)];
        if v > 0 { sets.push((2, v as i64)); }
        if i % 2 == 0 { sets.push((1, mode as i64)); }
        if i % 7 == 0 { sets.push((3, (i % 8) as i64)); }
        let mut b = QRBuilder::new(input.clone());
        for &(reg, val) in &sets { apply_set(&mut b, reg, val); }
        reqs.push(Req { input, sets, builder: Arc::new(b) });
    }
    let mut order: Vec<usize> = (0..nreq).chain(0..nreq).chain(0..nreq).collect();
    order.shuffle(&mut r);
    let mut seen = vec![false; nreq];
    let mut seq = 0u64;
    let mut emit = |sink: &mut Sink, seq: &mut u64, mut ev: Value| { *seq += 1; ev["seq"] = json!(*seq); ev["grp"] = json!(grp); ev["tid"] = json!(1); ev["id"] = json!(sink.id()); sink.emit(&ev); };
    for i in order {
        let q = &reqs[i];
        let bid = 10 + i as u64;
        if !seen[i] {
            seen[i] = true;
            emit(sink, &mut seq, json!({"ev": "HNew", "bid": bid, "tag": "hnew", "input": q.input}));
            for &(reg, val) in &q.sets { emit(sink, &mut seq, set_event(grp, 1, 0, bid, reg, val)); }
        }
        let b = q.builder.clone();
        let mut out = guarded(120, move || build_out(&b)).unwrap_or_else(|k| json!({"kind": k.split(':').next().unwrap_or("Panic"), "why": k}));
        if let Some(m) = out.as_object_mut() { m.remove("vals"); m.remove("types"); }
        emit(sink, &mut seq, json!({"ev": "HBuild", "bid": bid, "tag": "walk", "lite": 1, "out": out}));
    }
}

#[cfg(feature = "image")]
/// Soak: the same builder built, and the same code rendered, many times in one process on one thread; every result must equal the
/// first one (a counter that wraps, a pool that runs dry, a cache that fills up).  One event per block of 1 000 calls.
pub fn soak(sink: &mut Sink, seed: u64, thorough: bool) {
    let blocks = if thorough { 70 } else { 6 };
    let mut r = rng(seed, 43);
    let input = payload(&mut r, 1, 14, true);
    let res = guarded(3600, move || {
        let mut b = QRBuilder::new(input.clone());
        b.ecl(LEVELS[1]);
        let first = match b.build() { Ok(q) => q, Err(_) => return vec![(0usize, 0usize, 0usize)] };
        let fm = qr_modules(&first);
        let text0 = first.to_str();
        let svg0 = svg_builder(&[Call::Shape(1)]).to_str(&first);
        let sb = svg_builder(&[Call::Shape(1)]);
        let mut out = Vec::new();
        for blk in 0..blocks {
            let (mut same_build, mut same_render) = (0usize, 0usize);
            for i in 0..1000usize {
                let fresh = i % 97 == 0;
                let q = if fresh { let mut f = QRBuilder::new(input.clone()); f.ecl(LEVELS[1]); f.build() } else { b.build() };
                if let Ok(q) = q { if qr_modules(&q) == fm && q.mask.map(|m| m as usize) == first.mask.map(|m| m as usize) { same_build += 1; } }
                if i % 4 == 0 { if first.to_str() == text0 && sb.to_str(&first) == svg0 { same_render += 1; } } else { same_render += 1; }
            }
            out.push((blk, same_build, same_render));
        }
        out
    });
    match res {
        Ok(v) => for (blk, sb, sr) in v { let id = sink.id(); sink.emit(&json!({"ev": "HSoak", "id": id, "tag": "soak", "grp": 0, "block": blk, "calls": 1000, "same_build": sb, "same_render": sr, "kind": "Ok"})); },
        Err(k) => { let id = sink.id(); sink.emit(&json!({"ev": "HSoak", "id": id, "tag": "soak", "grp": 0, "block": 0, "calls": 1000, "same_build": 0, "same_render": 0, "kind": k})); }
    }
}
