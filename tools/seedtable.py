#!/usr/bin/env python3
"""Regenerates the seeded-change table of DESIGN.md (between the seeded:begin / seeded:end markers) from seeded/*/meta.json."""
import json, glob, os, re
root = os.path.dirname(os.path.dirname(os.path.abspath(__file__)))
rows = ["| seed | breaks | change | needs, to manifest | caught by (quick tier, seed 1) |", "|---|---|---|---|---|"]
for p in sorted(glob.glob(os.path.join(root, "seeded", "*", "meta.json"))):
    m = json.load(open(p))
    det = "; ".join(f"**{k}**: {v}" for k, v in m.get("detected_by", {}).items()) or "NOT DETECTED"
    extra = (" *Strengthened:* " + m["strengthened"]) if m.get("strengthened") else ""
    rows.append(f"| {os.path.basename(os.path.dirname(p))} | {m['breaks']}" + (" (+" + ", ".join(m["also_breaks"]) + ")" if m.get("also_breaks") else "") + f" | {m['summary']} | {m['needs']} | {det}{extra} |")
d = os.path.join(root, "DESIGN.md")
s = open(d).read()
block = "<!-- seeded:begin -->\n" + "\n".join(rows) + "\n<!-- seeded:end -->"
if "<!-- seeded:begin -->" in s:
    s = re.sub(r"<!-- seeded:begin -->.*?<!-- seeded:end -->", lambda _: block, s, flags=re.S)
else:
    s = s.replace("SEEDED_TABLE", block)
open(d, "w").write(s)
print(len(rows) - 2, "seeds")
