#!/usr/bin/env python3
"""Regenerates the as-built coverage table of DESIGN.md (between evidence:begin / evidence:end) from evidence/*.json."""
import json, glob, os, re
root = os.path.dirname(os.path.dirname(os.path.abspath(__file__)))
rows = ["| id | tier | scenarios (events judged by TLC) | MC runs (distinct states) | distinct cases | wall s |", "|---|---|---|---|---|---|"]
for p in sorted(glob.glob(os.path.join(root, "evidence", "C*.json"))):
    e = json.load(open(p)); c = e["coverage"]
    mc = "; ".join(f"{m.get('config', m.get('checker','apalache'))} ({m.get('distinct_states', len(m.get('obligations_discharged', [])))})" for m in c.get("model_checking_runs", []))
    rows.append(f"| {e['property_id']} | {e['tier']} | {', '.join(c.get('scenarios', []))} ({c['traces_validated_against_impl']}) | {mc} | {c['distinct_nontrivial']} | {e['wall_s']} |")
d = os.path.join(root, "DESIGN.md")
s = open(d).read()
block = "<!-- evidence:begin -->\n" + "\n".join(rows) + "\n<!-- evidence:end -->"
if "<!-- evidence:begin -->" in s:
    s = re.sub(r"<!-- evidence:begin -->.*?<!-- evidence:end -->", lambda _: block, s, flags=re.S)
    open(d, "w").write(s)
print(len(rows) - 2, "rows")
