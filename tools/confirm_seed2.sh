#!/bin/bash
# tools/confirm_seed2.sh <worktree dir> [cargo test extra args]: as confirm_seed.sh for an arbitrary scratch worktree
wt=$1; shift
cd $wt || exit 2
export CARGO_TARGET_DIR=$wt/target
echo "== with change: unit suite"
cargo test --workspace --no-fail-fast --offline 2>&1 | grep -E "^test result" | head -1
echo "== with change: demo"
cargo test --offline --test demo_seed "$@" 2>&1 | grep -E "^test result|^error" | head -2
git apply -R _seed/patch.diff || { echo "cannot revert"; exit 2; }
echo "== without change: demo"
cargo test --offline --test demo_seed "$@" 2>&1 | grep -E "^test result|^error" | head -2
git apply _seed/patch.diff
git diff HEAD --stat -- src | tail -1
