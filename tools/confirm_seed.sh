#!/bin/bash
# tools/confirm_seed.sh <id> [cargo test extra args]: confirms a sub-agent's seeded change in its scratch worktree /tmp/wt/<id>:
# 174 unit tests pass with the change; demo fails with the change and passes without it.
id=$1; shift
wt=/tmp/wt/$id
cd $wt || exit 2
export CARGO_TARGET_DIR=$wt/target
echo "== with change: unit suite"
cargo test --workspace --no-fail-fast --offline "$@" 2>&1 | grep -E "^test result" | head -1
echo "== with change: demo"
cargo test --offline --test demo_seed "$@" 2>&1 | grep -E "^test result|^error" | head -2
git apply -R _seed/patch.diff || { echo "cannot revert"; exit 2; }
echo "== without change: demo"
cargo test --offline --test demo_seed "$@" 2>&1 | grep -E "^test result|^error" | head -2
git apply _seed/patch.diff
git diff HEAD --stat -- src | tail -1
