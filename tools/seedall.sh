#!/bin/bash
# tools/seedall.sh: every seeded change of seeded/*/meta.json against the checks named in its detected_by, on the tree
# FQV_REPO (default /repo).  One line per seed: DETECTED / MISSED per check.  Used as a regression of the whole seed corpus
# after the checks or /repo changed (vp run --with-repo -- bash tools/seedall.sh, with harness/Cargo.toml pointed at $VP_RUN_REPO).
cd "$(dirname "$0")/.."
export FQV_VERIF=$(pwd)
for m in seeded/*/meta.json; do
  d=$(dirname $m)
  checks=$(python3 -c "import json,sys; print(' '.join(k for k in json.load(open('$m'))['detected_by'] if k.startswith('C')))")
  out=$(python3 tools/seedrun.py $d/patch.diff $checks --no-tests 2>&1 | grep -E "^C[0-9]+: rc=|does not apply|refusing" | sed -E 's/ violations=.*//' | tr '\n' ' ')
  echo "$(basename $d): $out"
done
