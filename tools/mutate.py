#!/usr/bin/env python3
"""tools/mutate.py [--workers N] [--limit M] [--seed S] [--files a.rs,b.rs]
Systematic single-token mutation of the crate's sources, to look for blind spots of the checks.

For every mutant that still compiles and still passes the repository's own 174 unit tests, the conformance harness is rebuilt
against the mutated sources and every quick-tier driver is run; the recorded event traces are compared (hash per scenario) with
the traces of the unchanged tree.  A mutant whose traces are all identical is invisible to every check (it is either an
equivalent mutant or a blind spot): those are the interesting ones and are listed for inspection.  A mutant whose traces differ
is judged by TLC in a second phase (--judge) to confirm that a diagnostic is raised, not merely a difference.

Everything happens in scratch copies under /tmp/fqv-mut (worktrees of /repo and copies of harness/); /repo is never touched.
Results: work/mutation/results.ndjson and work/mutation/survivors.txt."""
import hashlib, json, os, random, re, shutil, subprocess, sys, time
from concurrent.futures import ThreadPoolExecutor

ROOT = os.path.dirname(os.path.dirname(os.path.abspath(__file__)))
SCR = "/tmp/fqv-mut"
OUT = os.path.join(ROOT, "work", "mutation")
CORE = ["cells", "lengths", "structured", "nearblocks", "formats", "thresholds", "maskgroups", "modes", "total", "aftermath", "corrupt", "text", "svg", "callbacks", "frames", "raster", "threads", "soak",
        "candgroups", "conv", "fileio", "fileconc", "sessions", "histories"]
HOOKED = ["versionget", "encode", "rs", "tables", "maskop", "bestmode", "candidates", "compact", "wasm"]
FILES = ["compact.rs", "datamasking.rs", "default.rs", "encode.rs", "hardcode.rs", "helpers.rs", "module.rs", "placement.rs", "polynomials.rs", "qr.rs", "score.rs",
         "version.rs", "wasm.rs", "convert/mod.rs", "convert/svg.rs", "convert/image.rs"]

OPS = [
    (r"(?<![<>=!\-])<=(?!=)", "<"), (r"(?<![<>=!\-])>=(?!=)", ">"), (r"(?<![<>=!\-&:])<(?![<=:\-A-Za-z_\[&(])", "<="), (r"(?<![<>=!\-:])(?<!-)>(?![>=:])(?= )", ">="),
    (r"==", "!="), (r"!=", "=="), (r"&&", "||"), (r"\|\|", "&&"),
    (r"\+ 1\b", "+ 2"), (r"\+ 1\b", "+ 0"), (r"- 1\b", "- 0"), (r"- 1\b", "- 2"), (r"\bcontinue\b", "break"), (r"% 2\b", "% 3"), (r"% 3\b", "% 2"),
    (r"\.rev\(\)", ""), (r"\btrue\b", "false"), (r"\bfalse\b", "true"), (r"\* 2\b", "* 3"), (r"/ 2\b", "/ 3"), (r"\.saturating_sub\(1\)", ""),
]
NUM = re.compile(r"(?<![\w.#\"x])(\d{1,4})(?![\w.\"])")


def sh(cmd, cwd=None, env=None, timeout=1800):
    e = dict(os.environ)
    e.update(env or {})
    try:
        p = subprocess.run(cmd, shell=True, cwd=cwd, env=e, stdout=subprocess.PIPE, stderr=subprocess.STDOUT, text=True, timeout=timeout, errors="replace")
        return p.returncode, p.stdout
    except subprocess.TimeoutExpired as ex:
        return 124, (ex.stdout or b"").decode("utf8", "replace") if isinstance(ex.stdout, bytes) else (ex.stdout or "")


def code_lines(path):
    """(line number, text) of lines that are code: no comments, no attributes, not inside cfg(test) items or doc strings"""
    out = []
    skip_depth = None
    depth = 0
    pending_test = False
    for i, ln in enumerate(open(path).read().split("\n")):
        st = ln.strip()
        if st.startswith("#[cfg(test)]") or st.startswith("#[cfg(fast_qr_verif"):
            pending_test = True
            continue
        opens, closes = ln.count("{"), ln.count("}")
        if pending_test:
            if opens > closes and skip_depth is None:
                skip_depth = depth
            elif st.endswith(";") and skip_depth is None:
                pending_test = False
                depth += opens - closes
                continue
        depth += opens - closes
        if skip_depth is not None:
            if depth <= skip_depth:
                skip_depth = None
                pending_test = False
            continue
        if not st or st.startswith("//") or st.startswith("#[") or st.startswith("#!") or st.startswith("use ") or st.startswith("///"):
            continue
        out.append((i, ln))
    return out


def gen_mutants(files, rnd, per_file_numeric=12, only_numeric=False):
    muts = []
    for f in files:
        path = os.path.join("/repo/src", f)
        lines = code_lines(path)
        for (i, ln) in lines:
            code = ln.split("//")[0]
            for pat, rep in ([] if only_numeric else OPS):
                for m in re.finditer(pat, code):
                    muts.append({"file": f, "line": i, "col": m.start(), "old": m.group(0), "new": rep, "kind": "op"})
        # numeric literals: a sample per file (tables are huge)
        nums = []
        for (i, ln) in lines:
            code = ln.split("//")[0]
            if '"' in code:
                continue
            for m in NUM.finditer(code):
                nums.append((i, m.start(), m.group(1)))
        rnd.shuffle(nums)
        for (i, col, old) in nums[:(per_file_numeric if only_numeric else (45 if f in ('hardcode.rs', 'version.rs') else per_file_numeric))]:
            v = int(old)
            muts.append({"file": f, "line": i, "col": col, "old": old, "new": str(v + 1 if v < 255 else v - 1), "kind": "num"})
    for k, m in enumerate(muts):
        m["id"] = k
    return muts


def apply(repo, m):
    p = os.path.join(repo, "src", m["file"])
    L = open(p).read().split("\n")
    ln = L[m["line"]]
    assert ln[m["col"]:m["col"] + len(m["old"])] == m["old"], (ln, m)
    L[m["line"]] = ln[:m["col"]] + m["new"] + ln[m["col"] + len(m["old"]):]
    open(p, "w").write("\n".join(L))


def setup_worker(k):
    w = os.path.join(SCR, f"w{k}")
    if os.path.exists(w):
        sh(f"git -C /repo worktree remove --force {w}/repo")
        shutil.rmtree(w, ignore_errors=True)
    os.makedirs(w)
    rc, o = sh(f"git -C /repo worktree add -q --detach {w}/repo HEAD")
    assert rc == 0, o
    shutil.copytree(os.path.join(ROOT, "harness"), os.path.join(w, "harness"), ignore=shutil.ignore_patterns("target"))
    ct = os.path.join(w, "harness", "Cargo.toml")
    txt = open(ct).read().replace('path = "/repo"', f'path = "{w}/repo"')
    open(ct, "w").write(txt)
    return w


GUARD = "--cfg fast_qr_verif --check-cfg cfg(fast_qr_verif) --check-cfg cfg(fast_qr_verif_wasm_only)"


def behaviours():
    """behaviour files exported by TLC (taken from the last quick runs of C14, C17, C19 in work/)"""
    b = {}
    w = os.path.join(ROOT, "work")
    b["fileio"] = ["--replay-in", os.path.join(w, "C19_quick", "fileio_behaviours.ndjson")]
    b["wasm"] = ["--replay-in", os.path.join(w, "C17_quick", "wasm_behaviours.ndjson"), "--alphabet", os.path.join(w, "C17_quick", "wasm_alphabet.json")]
    b["histories"] = ["--replay-in", os.path.join(w, "C14_quick", "historiesEclMask_behaviours.ndjson")]
    b["fileconc"] = ["--replay-in", os.path.join(w, "C19_quick", "fileconc_behaviours.ndjson")]
    b["sessions"] = ["--replay-in", os.path.join(w, "C14_quick", "sessions_behaviours.ndjson"), "--alphabet", os.path.join(w, "C14_quick", "sessions_alphabet.json")]
    for k, v in b.items():
        assert os.path.exists(v[1]), f"run ./check C14 C17 C19 first ({v[1]} missing)"
    return b


def drive_all(w, tag):
    """builds both harness flavours in worker dir w and runs every driver; returns {scenario: sha or 'FAIL'} or build error"""
    res = {}
    h = os.path.join(w, "harness")
    beh = behaviours()
    scratch = os.path.join(w, "scratch")
    os.makedirs(scratch, exist_ok=True)
    for kind, scens, env, feat in (("core", CORE, {}, ""), ("hooked", HOOKED, {"RUSTFLAGS": GUARD}, "--features hooks")):
        rc, o = sh(f"cargo build --release --offline --quiet {feat}", cwd=h, env=dict(env, CARGO_TARGET_DIR=os.path.join(h, "target", kind)), timeout=1800)
        if rc != 0:
            for s in scens:
                res[s] = "NOBUILD"
            continue
        binary = os.path.join(h, "target", kind, "release", "fqv")
        for s in scens:
            outp = os.path.join(w, f"{s}.ndjson")
            extra = " ".join(beh.get(s, []))
            rc, o = sh(f"{binary} {s} --seed 1 --tier quick --out {outp} {extra}", cwd=w, env={"FQV_SCRATCH": scratch}, timeout=600)
            if rc != 0:
                res[s] = "DRIVERFAIL"
            else:
                res[s] = hashlib.sha256(open(outp, "rb").read()).hexdigest()[:16]
                if tag:
                    shutil.copy(outp, os.path.join(OUT, "traces", f"{tag}.{s}.ndjson"))
    return res


def run_mutant(w, m, base):
    repo = os.path.join(w, "repo")
    sh("git checkout -q -- src", cwd=repo)
    apply(repo, m)
    r = dict(m)
    t0 = time.time()
    rc, o = sh("cargo test --offline --lib 2>&1 | grep -E '^test result|^error' | head -2", cwd=repo, env={"CARGO_TARGET_DIR": os.path.join(w, "repo-target")}, timeout=900)
    if "error" in o and "test result" not in o:
        r["status"] = "nocompile"
    elif "174 passed; 0 failed" not in o:
        r["status"] = "killed-by-suite"
    else:
        d = drive_all(w, None)
        diff = sorted(s for s in d if d[s] != base.get(s))
        r["differs"] = diff
        r["status"] = "survived" if not diff else "observed"
    r["wall"] = round(time.time() - t0, 1)
    sh("git checkout -q -- src", cwd=repo)
    return r


CHEAP_FIRST = ["giant", "structured", "lengths", "nearblocks", "aftermath", "callbacks", "soak", "fileconc", "sessions", "tables", "versionget", "bestmode", "compact", "conv", "text", "fileio", "wasm", "frames", "raster", "svg", "candgroups", "rs", "encode",
               "maskop", "modes", "total", "corrupt", "formats", "thresholds", "maskgroups", "candidates", "threads", "histories", "cells"]


def judge(results_path, workers):
    """second phase: for every mutant whose traces differ, TLC judges the cheapest differing scenarios (up to 3) and the
    properties of the diagnostics are recorded; 'unflagged' = a visible difference that no property predicate objects to."""
    sys.path.insert(0, ROOT)
    from vlib import runner
    rs = [json.loads(l) for l in open(results_path) if l.strip()]
    obs = [r for r in rs if r["status"] == "observed"]
    print(f"{len(obs)} observed mutants to judge", flush=True)
    ws = [setup_worker(k) for k in range(workers)]
    outf = open(os.path.join(OUT, "judged.ndjson"), "a")
    import queue, threading
    q = queue.Queue()
    for r in obs:
        q.put(r)
    lock = threading.Lock()

    def work(w):
        while True:
            try:
                m = q.get_nowait()
            except queue.Empty:
                return
            repo = os.path.join(w, "repo")
            sh("git checkout -q -- src", cwd=repo)
            apply(repo, m)
            d = drive_all(w, None)
            props = {}
            tried = []
            for s in [x for x in CHEAP_FIRST if x in m["differs"]][:3]:
                if d.get(s) in ("NOBUILD", "DRIVERFAIL", None):
                    tried.append(s + ":" + str(d.get(s)))
                    continue
                try:
                    tv = runner.validate_trace(os.path.join(w, f"{s}.ndjson"), os.path.join(w, "tv_" + s), nshards=3)
                    for dg in tv["diags"]:
                        props[dg["property"]] = props.get(dg["property"], 0) + 1
                    tried.append(s)
                except Exception as ex:
                    tried.append(s + ":toolerror " + str(ex)[:80])
                if props:
                    break
            sh("git checkout -q -- src", cwd=repo)
            with lock:
                outf.write(json.dumps(dict(m, judged=tried, diagnostics=props, verdict="flagged" if props else "unflagged")) + "\n")
                outf.flush()
                print(("FLAGGED " if props else "UNFLAGGED ") + f"#{m['id']} {m['file']}:{m['line']+1} '{m['old']}' -> '{m['new']}' {tried} {props}", flush=True)

    ts = [threading.Thread(target=work, args=(w,)) for w in ws]
    for t in ts:
        t.start()
    for t in ts:
        t.join()
    for w in ws:
        sh(f"git -C /repo worktree remove --force {w}/repo")
    shutil.rmtree(SCR, ignore_errors=True)


def main():
    a = sys.argv[1:]
    if "--judge" in a:
        return judge(a[a.index("--judge") + 1], int(a[a.index("--workers") + 1]) if "--workers" in a else 3)
    def opt(name, default):
        return a[a.index(name) + 1] if name in a else default
    workers, limit, seed = int(opt("--workers", "4")), int(opt("--limit", "0")), int(opt("--seed", "1"))
    files = opt("--files", ",".join(FILES)).split(",")
    os.makedirs(os.path.join(OUT, "traces"), exist_ok=True)
    rnd = random.Random(seed)
    nums = int(opt("--nums", "0"))
    muts = gen_mutants(files, rnd, per_file_numeric=nums or 12, only_numeric=bool(nums))
    rnd.shuffle(muts)
    if limit:
        muts = muts[:limit]
    print(f"{len(muts)} mutants over {len(files)} files", flush=True)
    ws = [setup_worker(k) for k in range(workers)]
    base = drive_all(ws[0], "base")
    assert not any(v in ("NOBUILD", "DRIVERFAIL") for v in base.values()), base
    again = drive_all(ws[0], None)
    unstable = [s for s in base if base[s] != again[s]]
    print("baseline traces:", {k: v for k, v in base.items()}, "unstable:", unstable, flush=True)
    for s in unstable:
        base[s] = again[s] = "UNSTABLE"
    json.dump(base, open(os.path.join(OUT, "baseline.json"), "w"))
    resf = open(os.path.join(OUT, "results.ndjson"), "a")
    import queue, threading
    q = queue.Queue()
    for m in muts:
        q.put(m)
    lock = threading.Lock()
    counts = {}

    def work(w):
        while True:
            try:
                m = q.get_nowait()
            except queue.Empty:
                return
            try:
                r = run_mutant(w, m, {k: v for k, v in base.items() if v != "UNSTABLE"})
                if "differs" in r:
                    r["differs"] = [s for s in r["differs"] if s not in unstable]
                    if not r["differs"] and r["status"] == "observed":
                        r["status"] = "survived"
            except Exception as ex:
                r = dict(m, status="toolerror", err=str(ex)[:200])
            with lock:
                counts[r["status"]] = counts.get(r["status"], 0) + 1
                resf.write(json.dumps(r) + "\n")
                resf.flush()
                if r["status"] == "survived":
                    print(f"SURVIVED #{r['id']} {r['file']}:{r['line']+1} '{r['old']}' -> '{r['new']}'", flush=True)
                if sum(counts.values()) % 10 == 0:
                    print(counts, flush=True)

    ts = [threading.Thread(target=work, args=(w,)) for w in ws]
    for t in ts:
        t.start()
    for t in ts:
        t.join()
    print("done", counts)
    for w in ws:
        sh(f"git -C /repo worktree remove --force {w}/repo")
    shutil.rmtree(SCR, ignore_errors=True)


if __name__ == "__main__":
    main()
