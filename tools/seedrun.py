#!/usr/bin/env python3
"""tools/seedrun.py <patch.diff> <check id>... [--tier quick|thorough] [--no-tests]
Applies a seeded change to /repo, confirms the repository's own suite still passes (174 tests), runs the given
checks, prints which of them raise a VIOLATION, and ALWAYS restores /repo afterwards (git checkout -- . ; git clean for new files
the patch added).  Never commits anything in /repo."""
import subprocess, sys, os, re, json, time

# background regressions run on a snapshot (vp run --with-repo): FQV_REPO and FQV_VERIF point at the copies; default is the real thing
REPO = os.environ.get("FQV_REPO", "/repo")
VERIF = os.environ.get("FQV_VERIF", "/verif")

def sh(cmd, **kw):
    return subprocess.run(cmd, shell=isinstance(cmd, str), stdout=subprocess.PIPE, stderr=subprocess.STDOUT, text=True, **kw)

def main():
    a = sys.argv[1:]
    tier = "quick"
    if "--tier" in a:
        i = a.index("--tier"); tier = a[i + 1]; del a[i:i + 2]
    run_tests = "--no-tests" not in a
    a = [x for x in a if x != "--no-tests"]
    patch, checks = os.path.abspath(a[0]), a[1:]
    if sh(f"git -C {REPO} status --porcelain --untracked-files=no").stdout.strip():
        print("refusing: /repo has uncommitted changes"); return 2
    r = sh(f"git -C {REPO} apply --include='src/*' {patch}")
    if r.returncode != 0:
        # recorded against an earlier commit of /repo (only the guarded hook lines have changed since): three-way merge
        r = sh(f"git -C {REPO} apply --3way --include='src/*' {patch}")
        if r.returncode != 0 or "with conflicts" in r.stdout:
            sh(f"git -C {REPO} reset -q --hard HEAD")
            print("patch does not apply:", r.stdout); return 2
    res = {"patch": patch, "tier": tier, "checks": {}}
    try:
        if run_tests:
            t = sh(f"cd {REPO} && cargo test --workspace --no-fail-fast --offline 2>&1 | grep -E '^test result' | head -1")
            res["suite"] = t.stdout.strip()
            print("suite:", res["suite"])
        for c in checks:
            t0 = time.time()
            r = sh(f"cd {VERIF} && ./check {c} --tier {tier}", env=dict(os.environ, VERIF_SEED=os.environ.get("VERIF_SEED", "1")))
            viol = re.findall(r"VIOLATION property=(\S+) replay=(\S+)", r.stdout)
            why = re.findall(r"^\s+C\d+: .*$", r.stdout, re.M)
            res["checks"][c] = {"rc": r.returncode, "violations": len(viol), "why": why[:4], "wall_s": round(time.time() - t0, 1)}
            print(f"{c}: rc={r.returncode} violations={len(viol)} {why[:2]}")
            if r.returncode == 2:
                print(r.stdout[-1500:])
    finally:
        sh(f"git -C {REPO} reset -q --hard HEAD && git -C {REPO} clean -fdq -- src")
        print("restored:", sh(f"git -C {REPO} status --porcelain --untracked-files=no").stdout.strip() or "clean")
    print(json.dumps(res))
    return 0

if __name__ == "__main__":
    sys.exit(main())
