#!/bin/bash
# tools/coverage.sh: line coverage of /repo/src under the quick-tier drivers (needs the nightly toolchain's llvm-tools).
# Builds an instrumented copy of the harness under /tmp/fqv-cov, runs every driver, prints llvm-cov's per-file report and the
# lines never executed.  Diagnostic only: no check depends on it.
set -e
LLVM=$(dirname $(find ~/.rustup/toolchains/nightly-x86_64-unknown-linux-gnu -name llvm-cov | head -1))
W=/verif/work; C=/tmp/fqv-cov; rm -rf $C; mkdir -p $C; cp -r /verif/harness $C/h; rm -rf $C/h/target; cd $C/h
RUSTFLAGS="-C instrument-coverage --cfg fast_qr_verif --check-cfg cfg(fast_qr_verif) --check-cfg cfg(fast_qr_verif_wasm_only)" CARGO_TARGET_DIR=$C/t cargo +nightly build --release --offline --features hooks 2>&1 | tail -1
cd $C
for s in cells formats thresholds maskgroups modes total corrupt text svg frames raster threads candgroups conv callbacks versionget encode rs tables maskop bestmode candidates compact; do LLVM_PROFILE_FILE=$C/$s.profraw ./t/release/fqv $s --out $C/o.ndjson >/dev/null 2>&1; done
FQV_SCRATCH=$C LLVM_PROFILE_FILE=$C/fileio.profraw ./t/release/fqv fileio --replay-in $W/C19_quick/fileio_behaviours.ndjson --out $C/o.ndjson
LLVM_PROFILE_FILE=$C/wasm.profraw ./t/release/fqv wasm --replay-in $W/C17_quick/wasm_behaviours.ndjson --alphabet $W/C17_quick/wasm_alphabet.json --out $C/o.ndjson
LLVM_PROFILE_FILE=$C/hist.profraw ./t/release/fqv histories --replay-in $W/C14_quick/historiesEclMask_behaviours.ndjson --out $C/o.ndjson
$LLVM/llvm-profdata merge -sparse $C/*.profraw -o $C/all.profdata
$LLVM/llvm-cov report ./t/release/fqv -instr-profile=$C/all.profdata --sources /repo/src 2>/dev/null | cut -c1-150 | grep -v "^---"
echo "--- lines never executed"
$LLVM/llvm-cov show ./t/release/fqv -instr-profile=$C/all.profdata --sources /repo/src --show-line-counts-or-regions 2>/dev/null | grep -E "^\s+[0-9]+\|\s+0\||^/repo" | cut -c1-140
rm -rf $C
