#!/bin/bash
# tools/benignall.sh: the property-preserving controls (seeded/benign, seeded/benign2) against the checks named in their READMEs;
# every line must end with rc=0 only.  FQV_REPO / FQV_VERIF as in tools/seedall.sh.
cd "$(dirname "$0")/.."
export FQV_VERIF=$(pwd)
run() { out=$(python3 tools/seedrun.py $1 ${@:2} --no-tests 2>&1 | grep -E "^C[0-9]+: rc=|does not apply|refusing" | sed -E 's/ violations=.*//' | tr '\n' ' '); echo "$(basename $1): $out"; }
run seeded/benign/a_tiebreak.diff C11 C14
run seeded/benign/b_svgsyntax.diff C12 C13 C17 C18
run seeded/benign/c_texttop.diff C16
run seeded/benign/d_rename_hooked_fn.diff C07 C11
run seeded/benign2/b1.diff C11 C14 C04 C01 C08
run seeded/benign2/b2.diff C16
run seeded/benign2/b3.diff C12 C13 C17 C18 C19 C14
run seeded/benign2/b4.diff C12 C17 C13
run seeded/benign2/b5.diff C05 C10 C14
run seeded/benign2/b6.diff C11 C07 C01 C17
