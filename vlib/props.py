"""Per-property decision procedures: which MC configurations, which driver scenarios, which diagnostics count."""
import json, os, re, sys, time, hashlib
from . import runner
from .runner import ToolError, log, ROOT, WORK


def mcq(name):
    return {"quick": [(f"{name}.tla", f"{name}_quick.cfg")], "thorough": [(f"{name}.tla", f"{name}_thorough.cfg")]}


def mc_join(*parts):
    return {t: sum((p[t] for p in parts), []) for t in ("quick", "thorough")}


PIPE = mcq("MC_Pipeline")
LEMMAS = mcq("MC_Lemmas")
MSEL = mcq("MC_MaskSelect")

# id -> description of the check.
#   scen: list of (harness kind, scenario name, required); a 'hooked' scenario that is not required is skipped (and noted in
#         the evidence) when the hooked harness does not build against /repo's tree -- the public-API scenarios still decide.
#   mc:   per tier, list of (module, cfg) model-checking runs (read nothing from /repo)
PROPS = {
    "C01": dict(scen=[("core", "cells", True)], mc=PIPE, invariants="RoundTripInv (MC), RoundTrip (TV)"),
    "C02": dict(scen=[("core", "cells", True), ("core", "corrupt", True), ("hooked", "tables", False)], mc=mc_join(PIPE, LEMMAS),
                invariants="BlocksValidInv (MC), CodewordCount/RemainderBitsZero/BlockShape/SyndromesZero + Corrupt/Recover (TV), BMLemma"),
    "C03": dict(scen=[("core", "cells", True), ("hooked", "maskop", False), ("hooked", "tables", False)], mc=mc_join(PIPE, LEMMAS),
                invariants="FunctionPatternsInv (MC), FunctionPatternsExact/NothingOutsideSquare (TV), LayoutLemmas"),
    "C04": dict(scen=[("core", "formats", True), ("hooked", "tables", False)], mc=mc_join(PIPE, LEMMAS),
                invariants="FormatVersionTruthInv (MC), FormatCopiesExact/VersionInfoExact/ReportedFieldsTruth/ReportedModeTruth/ForcedOptionsHonoured (TV), TableLemmas (BCH distances)"),
    "C05": dict(scen=[("core", "thresholds", True), ("hooked", "versionget", False)], mc=mc_join(PIPE, LEMMAS),
                invariants="MinimalVersionInv, OutcomeTotal (MC), MinimalVersion/ExpectedOutcome (TV), EncodeLemmas (monotonicity)"),
    "C06": dict(scen=[("core", "cells", True), ("hooked", "encode", False), ("hooked", "tables", False)], mc=PIPE,
                invariants="DataCodewordsISOInv, StagedEqualsClosedForm (MC), DataCodewordsISO (TV)"),
    "C07": dict(scen=[("core", "cells", True), ("hooked", "rs", False)], mc=mc_join(PIPE, LEMMAS),
                invariants="ECIsRemainderInv (MC), ECIsRemainder/Poly/Division/DivBlock (TV), FieldLemmas"),
    "C08": dict(scen=[("core", "maskgroups", True), ("hooked", "maskop", False)], mc=mc_join(PIPE, LEMMAS),
                invariants="MaskExactInv (MC), same-unmasked-symbol per group + MaskOp (TV), MaskLemmas"),
    "C09": dict(scen=[("core", "modes", True), ("hooked", "bestmode", False)], mc=mc_join(PIPE, LEMMAS),
                invariants="AutoModeCompactInv (MC), AutoModeCompact/BestMode (TV), EncodeLemmas"),
    "C10": dict(scen=[("core", "total", True)], mc=PIPE, invariants="OutcomeTotal (MC), Panic/Timeout outcomes match no action (TV)"),
    "C11": dict(scen=[("hooked", "candidates", True)], mc=mc_join(MSEL, PIPE), apalache=True,
                invariants="MaskMinimalInv (MC_Pipeline), Minimal/IndInv (MC_MaskSelect, Apalache), chosen in argmin of Penalty over recorded candidates (TV)"),
    "C15": dict(scen=[("core", "cells", True), ("hooked", "maskop", False)], mc=mc_join(PIPE, LEMMAS),
                invariants="LabelsExact, DataLabelCount (TV), FunctionPatternsInv (MC), LayoutLemmas"),
}
# non-listed growth checks (./check growth): never reported under a listed property id
GROWTH = dict(scen=[("hooked", "compact", True)], mc={"quick": [], "thorough": []})


def load_known():
    """known_findings.txt: 'finding: property=<id> key=<key> <text>' suppress exactly the diagnostics with that key;
    'fixed: ...' lines suppress nothing."""
    out = []
    p = os.path.join(ROOT, "known_findings.txt")
    if os.path.exists(p):
        for ln in open(p):
            m = re.match(r"finding:\s+property=(\S+)\s+key=(\S+)\s+(.*)", ln.strip())
            if m:
                out.append({"property": m.group(1), "key": m.group(2), "text": m.group(3)})
    return out


def diag_key(d):
    return d.get("key") or f"{d.get('tag','')}|{d.get('why','')}".replace(" ", "_")


def shorten(e, depth=0):
    if isinstance(e, dict):
        return {k: shorten(v, depth + 1) for k, v in e.items()}
    if isinstance(e, list):
        if len(json.dumps(e)) > 300:
            if e and all(isinstance(x, int) for x in e):
                return e[:16] + [f"... {len(e)} ints"]
            return [shorten(x, depth + 1) for x in e[:2]] + [f"... {len(e)} items"]
        return e
    if isinstance(e, str) and len(e) > 300:
        return e[:300] + "..."
    return e


def sample_event(line):
    try:
        return shorten(json.loads(line))
    except Exception:
        return line[:200]


def write_evidence(pid, tier, seed, level, coverage, assumptions, wall, violations):
    os.makedirs(os.path.join(ROOT, "evidence"), exist_ok=True)
    ev = {"property_id": pid, "tier": tier, "seed": seed, "level": level, "coverage": coverage,
          "assumptions": assumptions, "wall_s": round(wall, 2), "violations": violations}
    with open(os.path.join(ROOT, "evidence", f"{pid}.json"), "w") as f:
        json.dump(ev, f, indent=1)


APALACHE_OBLIGATIONS = [("Init => IndInv", ["--init=Init", "--inv=IndInv", "--length=0"]),
                        ("IndInv /\\ Next => IndInv'", ["--init=IndInit", "--inv=IndInv", "--length=1"]),
                        ("IndInv => Minimal", ["--init=IndInit", "--inv=Minimal", "--length=0"])]


def run_apalache(wd):
    """Inductive invariant of the selection loop for unbounded scores.  Reads nothing from /repo: failure = tool error."""
    import shutil, subprocess
    d = os.path.join(wd, "apalache")
    shutil.rmtree(d, ignore_errors=True)
    os.makedirs(d)
    shutil.copy(os.path.join(runner.SPEC, "MaskSelect.tla"), d)
    res = []
    t0 = time.time()
    for name, args in APALACHE_OBLIGATIONS:
        rc, out = runner.sh(["apalache-mc", "check", *args, f"--out-dir={d}/out", "MaskSelect.tla"], 600, cwd=d, env={"JAVA_TOOL_OPTIONS": "-Xmx4g"})
        ok = rc == 0 and "EXITCODE: OK" in out
        if not ok:
            raise ToolError(f"Apalache did not discharge '{name}' (rc={rc}):\n" + "\n".join(out.splitlines()[-15:]))
        res.append(name)
    shutil.rmtree(d, ignore_errors=True)
    log(f"[apalache] {len(res)} obligations discharged in {time.time()-t0:.1f}s")
    return res


def run_property(pid, tier, seed, replay=None, spec=None):
    t0 = time.time()
    spec = spec or PROPS[pid]
    wd = os.path.join(WORK, f"{pid}_{tier}")
    os.makedirs(wd, exist_ok=True)
    notes = []
    # 1. model checking of the design (reads nothing from /repo: failure = tool error)
    mc_states = mc_trans = 0
    mc_runs = []
    if not replay:
        for (mod, cfg) in spec["mc"].get(tier, spec["mc"]["quick"]):
            r = runner.model_check(mod, cfg, f"{pid}_{cfg}", workers=10)
            mc_states += r["distinct"]
            mc_trans += r["states"]
            mc_runs.append({"module": mod, "config": cfg, "distinct_states": r["distinct"], "states_generated": r["states"], "wall_s": round(r["wall"], 1)})
        if spec.get("apalache"):
            obl = run_apalache(wd)
            mc_runs.append({"module": "MaskSelect.tla", "checker": "apalache-mc", "obligations_discharged": obl})
    # 2. drive the implementation
    all_lines = []
    tv_total = {"events": 0, "diags": [], "notes": [], "wall": 0.0, "states": 0, "cached": 0}
    want_ids = None
    hdr = {}
    if replay:
        hdr = json.loads(open(replay).readline())
        seed, tier, want_ids = hdr["seed"], hdr["tier"], set(hdr["ids"])
    ran = []
    for kind, scen, required in spec["scen"]:
        if replay and hdr.get("scenario") and hdr["scenario"] != scen:
            continue
        try:
            binary = runner.build_harness(kind)
        except ToolError as e:
            if required:
                raise
            notes.append(f"hook tier unavailable, scenario '{scen}' skipped: {str(e)[:300]}")
            log(f"[skip] {scen}: hooked harness does not build; the public-API scenarios decide")
            continue
        evp = os.path.join(wd, f"{scen}.ndjson")
        runner.drive(binary, scen, seed, tier, evp)
        if want_ids is not None:
            keep = []
            for l in open(evp).read().split("\n"):
                if l.strip():
                    j = json.loads(l)
                    if j["id"] in want_ids or (j.get("grp", 0) and j.get("grp", 0) in hdr.get("grps", [])):
                        keep.append(l)
            open(evp, "w").write("\n".join(keep) + "\n")
        lines = [l for l in open(evp).read().split("\n") if l.strip()]
        all_lines += lines
        r = runner.validate_trace(evp, os.path.join(wd, "tv_" + scen))
        for k in ("events", "wall", "states"):
            tv_total[k] += r[k]
        tv_total["cached"] += 1 if r.get("cached") else 0
        tv_total["diags"] += [dict(d, scenario=scen) for d in r["diags"]]
        tv_total["notes"] += r["notes"]
        ran.append(scen)
    # 3. verdict: only diagnostics of this property; known findings subtracted
    own = [d for d in tv_total["diags"] if d["property"] == pid]
    others = {}
    for d in tv_total["diags"]:
        if d["property"] != pid:
            others[d["property"]] = others.get(d["property"], 0) + 1
    tool = [d for d in tv_total["diags"] if d["property"] == "TOOL"]
    if tool:
        raise ToolError(f"trace contains events the trace specification cannot place: {tool[:3]}")
    known = [k for k in load_known() if k["property"] == pid]
    kkeys = {k["key"] for k in known}
    hits = [d for d in own if diag_key(d) in kkeys]
    fresh = [d for d in own if diag_key(d) not in kkeys]
    for k in known:
        if any(diag_key(d) == k["key"] for d in hits):
            print(f"KNOWN-FINDING: property={pid} {k['key']} {k['text']}")
    tags = {}
    for l in all_lines:
        m = re.search(r'"tag":"([^"]*)"', l)
        if m:
            tags[m.group(1)] = tags.get(m.group(1), 0) + 1
    # distinct = distinct events once the running id and the observed output are removed: (scenario cell, input, options)
    distinct = len({hashlib.md5(re.sub(r'"id":\d+,?', "", re.sub(r'"(out|obs|cand|rems|after|vals)":.*', "", l)).encode()).hexdigest() for l in all_lines})
    n = len(all_lines)
    picks = [all_lines[i] for i in sorted({0, n // 3, (2 * n) // 3, n - 1}) if 0 <= i < n]
    coverage = {
        "states": max(mc_states, 1) if mc_runs else max(tv_total["states"], 1),
        "transitions": max(mc_trans, 1) if mc_runs else max(tv_total["states"], 1),
        "traces_validated_against_impl": tv_total["events"],
        "samples": [sample_event(l) for l in picks],
        "evaluations": tv_total["events"],
        "distinct_nontrivial": distinct,
        "rule": "one evaluation = one event recorded from the real crate and judged by TLC against spec/Trace.tla; distinct = distinct (scenario cell, input, options) triples; every event is non-trivial in that the property predicates are evaluated on the implementation's observed output",
        "model_checking_runs": mc_runs,
        "distinct_cells": len(tags),
        "tv_wall_s": round(tv_total["wall"], 1),
        "tv_results_reused_for_identical_trace": tv_total["cached"],
        "diagnostics_own": len(own), "diagnostics_known": len(hits),
        "other_property_diagnostics": others,
        "spec_invariants": spec.get("invariants", ""),
        "scenarios": ran,
        "notes": notes + [json.dumps(x)[:400] for x in tv_total["notes"][:3]],
        "exhaustive": False,
    }
    assumptions = ["TLC evaluates the TLA+ operators correctly", "payload contents are sampled (seeded); configuration cells are enumerated",
                   "harness sensors project implementation output faithfully"]
    nviol = 0
    if fresh:
        os.makedirs(os.path.join(ROOT, "replay"), exist_ok=True)
        byid = {}
        for l in all_lines:
            m = re.search(r'"id":(\d+)', l)
            if m:
                byid.setdefault(int(m.group(1)), []).append(l)
        groups = {}
        for d in fresh:
            groups.setdefault((d["scenario"], d["why"]), []).append(d)
        for n_, ((scen, why), ds) in enumerate(sorted(groups.items())):
            path = os.path.join(ROOT, "replay", f"{pid}-{tier}-{seed}-{n_}.ndjson")
            ids = sorted({d["id"] for d in ds})[:20]
            evs = [l for i in ids for l in byid.get(i, []) if f'"tag":"{[d for d in ds if d["id"] == i][0].get("tag","")}"' in l]
            grps = sorted({json.loads(l).get("grp", 0) for l in evs} - {0})
            with open(path, "w") as f:
                f.write(json.dumps({"property": pid, "why": why, "scenario": scen, "seed": seed, "tier": tier, "ids": ids, "grps": grps, "count": len(ds),
                                    "replay": f"./check {pid} --replay {path}"}) + "\n")
                for l in evs:
                    f.write(l + "\n")
            print(f"VIOLATION property={pid} replay={path}")
            log(f"  {pid}: {len(ds)} event(s) in scenario {scen}: {why}; e.g. tag={ds[0].get('tag')} id={ds[0].get('id')}")
            nviol += 1
    if not pid.startswith("G"):
        write_evidence(pid, tier, seed, "model_checking", coverage, assumptions, time.time() - t0, nviol)
    return 1 if nviol else 0
