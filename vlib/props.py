"""Per-property decision procedures: which MC configurations, which driver scenarios, which diagnostics count."""
import json, os, re, shutil, sys, time, hashlib
from . import runner, domains
from .runner import ToolError, log, ROOT, WORK


def mcq(name):
    return {"quick": [(f"{name}.tla", f"{name}_quick.cfg")], "thorough": [(f"{name}.tla", f"{name}_thorough.cfg")]}


def mc_join(*parts):
    return {t: sum((p[t] for p in parts), []) for t in ("quick", "thorough")}


PIPE = mcq("MC_Pipeline")
LEMMAS = mcq("MC_Lemmas")
MSEL = mcq("MC_MaskSelect")

# id -> description of the check.
#   scen: list of (harness kind, scenario name, required); a 'hooked' scenario that is not required is skipped (and noted in
#         the evidence) when the hooked harness does not build against /repo's tree -- the public-API scenarios still decide.
#   mc:   per tier, list of (module, cfg) model-checking runs (read nothing from /repo)
PROPS = {
    "C01": dict(scen=[("core", "cells", True), ("core", "lengths", True), ("core", "structured", True), ("core", "discovered", False), ("diff", "diffbuild", False)], mc=PIPE, invariants="RoundTripInv (MC), RoundTrip (TV)"),
    "C02": dict(scen=[("core", "cells", True), ("core", "nearblocks", True), ("core", "corrupt", True), ("hooked", "birthday", False), ("hooked", "tables", False), ("diff", "diffbuild", False)], mc=mc_join(PIPE, LEMMAS),
                invariants="BlocksValidInv (MC), CodewordCount/RemainderBitsZero/BlockShape/SyndromesZero + Corrupt/Recover (TV), BMLemma"),
    "C03": dict(scen=[("core", "cells", True), ("hooked", "maskop", False), ("hooked", "tables", False), ("diff", "diffbuild", False)], mc=mc_join(PIPE, LEMMAS),
                invariants="FunctionPatternsInv (MC), FunctionPatternsExact/NothingOutsideSquare (TV), LayoutLemmas"),
    "C04": dict(scen=[("core", "formats", True), ("hooked", "tables", False), ("diff", "diffbuild", False)], mc=mc_join(PIPE, LEMMAS),
                invariants="FormatVersionTruthInv (MC), FormatCopiesExact/VersionInfoExact/ReportedFieldsTruth/ReportedModeTruth/ForcedOptionsHonoured (TV), TableLemmas (BCH distances)"),
    "C05": dict(scen=[("core", "thresholds", True), ("core", "giant", True), ("hooked", "versionget", False), ("diff", "diffbuild", False)], mc=mc_join(PIPE, LEMMAS),
                invariants="MinimalVersionInv, OutcomeTotal (MC), MinimalVersion/ExpectedOutcome (TV), EncodeLemmas (monotonicity)"),
    "C06": dict(scen=[("core", "cells", True), ("core", "lengths", True), ("core", "structured", True), ("core", "discovered", False), ("hooked", "encode", False), ("hooked", "tables", False), ("diff", "diffbuild", False)], mc=PIPE,
                invariants="DataCodewordsISOInv, StagedEqualsClosedForm (MC), DataCodewordsISO (TV)"),
    "C07": dict(scen=[("core", "cells", True), ("core", "nearblocks", True), ("hooked", "birthday", False), ("hooked", "rs", False), ("diff", "diffbuild", False)], mc=mc_join(PIPE, LEMMAS),
                invariants="ECIsRemainderInv (MC), ECIsRemainder/Poly/Division/DivBlock (TV), FieldLemmas"),
    "C08": dict(scen=[("core", "maskgroups", True), ("hooked", "maskop", False)], mc=mc_join(PIPE, LEMMAS),
                invariants="MaskExactInv (MC), same-unmasked-symbol per group + MaskOp (TV), MaskLemmas"),
    "C09": dict(scen=[("core", "modes", True), ("core", "discovered", False), ("hooked", "bestmode", False), ("diff", "diffbuild", False)], mc=mc_join(PIPE, LEMMAS),
                invariants="AutoModeCompactInv (MC), AutoModeCompact/BestMode (TV), EncodeLemmas"),
    "C10": dict(scen=[("core", "total", True), ("core", "nearblocks", True), ("core", "aftermath", True), ("core", "discovered", False), ("diff", "diffbuild", False)], mc=PIPE, invariants="OutcomeTotal (MC), Panic/Timeout outcomes match no action (TV)"),
    "C11": dict(scen=[("hooked", "candidates", False), ("core", "candgroups", True)], mc=mc_join(MSEL, PIPE), apalache=["MaskSelect"],
                invariants="MaskMinimalInv (MC_Pipeline), Minimal/IndInv (MC_MaskSelect, Apalache), chosen in argmin of Penalty over recorded candidates (TV)"),
    "C15": dict(scen=[("core", "cells", True), ("core", "callbacks", True), ("hooked", "maskop", False)], mc=mc_join(PIPE, LEMMAS),
                invariants="LabelsExact, DataLabelCount (TV), FunctionPatternsInv (MC), LayoutLemmas"),
}
PROPS.update({
    "C12": dict(scen=[("core", "svg", True), ("core", "svgdiscovered", False), ("core", "callbacks", True), ("core", "sessions", True), ("diff", "diffrender", False)], mc=mcq("MC_Render"),
                invariants="SvgStructure/SvgBackground/SvgLayerCount/SvgCells/SvgLayerColors/SvgImage over the register machine RegsAfter(program) (TV); MC_Render: render/decode round trips of the model"),
    "C13": dict(scen=[("core", "raster", True), ("diff", "diffrender", False)], mc=mcq("MC_Render"),
                invariants="RasterSide/RasterCentres/RasterUniform/RasterPng over RegsAfter(program) (TV)"),
    "C16": dict(scen=[("core", "text", True), ("diff", "diffrender", False)], mc=mcq("MC_Render"),
                invariants="TextShape/TextBorder/TextModules (TV); MC_Render: decode o TextOf = id on all 0/1 matrices of a small side"),
    "C17": dict(scen=[("hooked|wasm", "wasm", True), ("hooked-diff", "diffwasm", False)], mc={"quick": [], "thorough": []},
                invariants="HavocExact, TypeOK (MC_Wasm, GEN); WasmNeverTraps, WasmEqualsNative = Render predicates on NativeOf(W_After(program)) + string equality with the native output (TV)"),
    "C18": dict(scen=[("core", "frames", True), ("core", "rasterframes", True), ("core", "sessions", True), ("diff", "diffrender", False)], mc=mcq("MC_Render"),
                invariants="FrameDefault, FrameImageCentred, monotone frame side (FrameSweep), FrameOverrides (TV)"),
    "C19": dict(scen=[("core", "fileio", True), ("core", "fileconc", True)], mc={"quick": [], "thorough": []}, apalache=["FileInd"],
                invariants="FileAllOrError (MC_FileIO, GEN -> replay), F_Run(fault, AbsOff(limit, len)) = observed return (TV); FileInd: inductive invariant for any number of chunks (Apalache)"),
})
# scenarios whose programs / behaviours are generated by TLC from a machine of the specification (GEN -> replay -> TV)
# scenarios that need no renderer: also driven against the crate compiled without its `svg` / `image` features
BARE_SCENS = {"cells", "lengths", "structured", "nearblocks", "formats", "thresholds", "giant", "maskgroups", "candgroups", "modes", "total", "corrupt", "discovered",
              "text", "aftermath", "walk", "histories"}
# scenarios of the SVG renderer alone: also driven against the crate compiled with `svg` but without `image`
SVGONLY_SCENS = {"svg", "frames", "callbacks", "svgdiscovered", "sessions"}
DIFF_SCENS = {"diffbuild", "diffrender", "diffwasm"}     # differential input selection against ref/ (flavour `diff`)
NO_TWIN = {"birthday", "diffbuild", "diffrender", "diffwasm"}        # a sweep that only selects inputs (25 CPU-minutes in the thorough tier): driven against one build configuration
# scenario -> (fuzz target, seconds per tier)
DISCOVER = {"discovered": ("qrbuild", {"quick": 25, "thorough": 300}), "candidates": ("qrbuild", {"quick": 25, "thorough": 300}), "svgdiscovered": ("svgimage", {"quick": 15, "thorough": 120})}
GEN = {"fileio": ("FileIO.tla", "MC_FileIO.cfg", False), "wasm": ("MC_Wasm.tla", "MC_Wasm_{tier}.cfg", True),
       "fileconc": ("FileIO2.tla", "MC_FileIO2.cfg", False),
       "histories": ("MC_Builder.tla", "MC_Builder_{variant}_{tier}.cfg", False),
       "sessions": ("MC_RenderSession.tla", "MC_RenderSession_{tier}.cfg", True)}
PROPS["C14"] = dict(scen=[("core", "histories:SeqEclMask", True), ("core", "histories:SeqModeVersion", True), ("core", "histories:EclMask", True), ("core", "histories:ModeVersion", True), ("core", "histories:EclVersion", True), ("core", "histories:SeqRejected", True), ("core", "histories:Rejected", True), ("core", "aftermath", True), ("core", "walk", True), ("hooked", "tiewalk", False), ("core", "threads", True), ("core", "sessions", True), ("core", "soak", True)],
                    mc={"quick": [], "thorough": []},
                    invariants="Deterministic, SnapshotIsRegisters, BuildReadOnly (MC_Builder, every interleaving of 2 builders x 2 threads; GEN -> replay); HNew/HSet/HBuild judged on the registers the model holds, equal registers => equal results, renders read-only and repeatable (TV)")


# what each check claims, in its own words (goes into MANIFEST.json)
CLAIMS = {
 "C01": ("TLC model-checks the staged build machine (every option combination over a small input set, decode path against construction path) and validates Build events of the real crate: all 160 (version, level) cells x boundary lengths (capacity, capacity-1, smallest length needing the version, 0/1, half) x rotating modes and forced/automatic masks, every payload length 0..260 (0..1200 thorough) per mode, structured contents (long runs, 000/999 groups, pad look-alikes, repeated records, every digit triple and alphanumeric pair, user-like and periodic contents), inputs discovered by a coverage-guided fuzzer; each symbol is decoded by the ISO reference procedure written in TLA+ (format bits, unmasking, zig-zag read-out, de-interleaving, strict single-segment parse) and must give back the input.",
         "Payload bytes are sampled (seeded); configuration cells are enumerated and counted. The decoder is the specification's own (QRDecode.tla), independent of every table of the crate."),
 "C02": ("Block count, block sizes (short blocks first), interleaving, remainder bits and all syndromes are read off every built symbol of all 160 cells and compared with the geometry-derived layout and GF(256) generated from 0x11D; Corrupt events apply seeded error patterns of weight 1, t/2 and t = floor(ec/2) per block (burst and spread) and a Berlekamp-Massey/Chien/Forney decoder written in TLA+ must recover every block; byte payloads whose data blocks mirror each other up to a compensating difference (against digest-keyed shortcuts), blocks shaped at the codeword level (the padding alternation exact or with one codeword changed, all zero, all 0xFF, copies, reversals and rotations of another block, blocks whose division passes through a run of zero leading coefficients at the end or in the middle, in pairs), and the birthday sweep described under C07; the crate's block-group table is judged cell by cell through the hook tier.",
         "Error patterns are sampled; the algebraic guarantee rests on the syndrome check, which is made on every block of every event. ISO Table 9 (EC codewords per block, number of blocks) is typed into the specification and cross-checked by MC_Lemmas against the geometric module count."),
 "C03": ("Every module of every built symbol that lies in a function pattern is compared with the closed-form geometry of QRLayout.tla (finder rings, separators, timing parity, Annex E alignment centres in closed form, dark module); the tail of the 177x177 backing array must stay default; blank symbols of all 40 versions and every mask sweep alone are judged through the hook tier.",
         "Exhaustive over (version, coordinate); payload, level and mask are sampled per cell (payload-independence is observed, not proved)."),
 "C04": ("Both format copies and both version copies are read from the symbol and must be the BCH(15,5)/BCH(18,6) code words generated from their generator polynomials; reported level/mask/version/mode/size must equal what the symbol encodes and every forced option; covered: 320 (quick) / all 1 280 (thorough) forced (version, level, mask) cells, all 16 forced/automatic combinations of the four options x 4 levels x 8 masks, default level Q.",
         "Payloads are short and sampled; the option lattice is enumerated on small versions only."),
 "C05": ("Version choice and error outcome of every build are compared with MinVersion derived from the bit-length formula: all 1 440 capacity thresholds (mode, level, version) x {cap-1, cap, cap+1}, every forced version x 3 lengths, the thresholds of the default level with and without a forced version, lengths up to 10^6 and inputs of 390 MB to 537 MB (4 GiB + 7000 in thorough) whose length x 8 / 10 / 11 crosses 2^32; through the hook tier the version lookup is judged for every length 0..7200 x 3 modes x 4 levels (run-length encoded, sound by the monotonicity lemma).",
         "Large symbols are judged on outcome and reported fields only in the quick tier (fully decoded in thorough). A panic or hang is an outcome that matches no action of the specification."),
 "C06": ("Data codewords read back from every built symbol, and the encoder's output alone through the hook tier (480 (version, level, mode) cells x lengths leaving 0..12 spare bits, all residues), (and of about 700 inputs per run discovered by a coverage-guided fuzzer, which finds content the crate treats specially) must equal the closed-form ISO 7.4 bit stream of QREncode.tla bit for bit (mode indicator, count width per version class, group packing, terminator, zero fill, pad alternation); MC checks the staged encoder of the machine equal to the closed form.",
         "Payload contents sampled; the count widths and mode indicators are typed into the specification."),
 "C07": ("Through the hook tier: the generator accessor for all 160 cells against generators built from their roots; remainders of b*x^k for the single-non-zero-byte basis (13 degrees x 123 powers x 8 (quick) / all 255 (thorough) byte values, each step checked as one LFSR shift of the recorded predecessor); 64 / 320 random and structured contents per (degree, block length) shape. Through the public API: every block of every built symbol is re-divided by the model; a birthday sweep (2 / 24 million random payloads through the encode and structure stages, those with a block that does not XOR to zero built and judged) looks for content-keyed shortcuts.",
         "The division is GF(2)-linear, so the basis covers every content for defects that are linear; content-dependent control-flow defects are covered by the random blocks (sampled)."),
 "C08": ("For all 40 versions the same payload is built with the eight forced masks and automatic selection; un-masking each symbol with the mask named in its own format bits must give the same matrix (function modules included, format strip excluded); each mask sweep alone is judged against the Table 10 condition on blank, all-dark and random fills through the hook tier.",
         "One level per version in the quick tier (all four in thorough); payloads sampled."),
 "C09": ("Reported mode and decoded mode indicator against BestMode: all 256 byte values at every position of strings of length <= 4 and at four positions of lengths 8, 9, 16, 17, 33, with digit and alphanumeric filler; all class patterns up to length 6 / 8; long strings; inputs discovered by a coverage-guided fuzzer (about 700 per run, judged like any other); valid UTF-8 texts drawn by Unicode category (digits of other scripts, other numerics, letters, white space, full-width look-alikes, zero-width characters) alone and mixed with ASCII digits and upper case; the classifier alone on 6 000 / 100 000 inputs through the hook tier. A crash of an automatic-mode build is attributed to this property when the same input builds with the most compact mode forced.",
         "Long strings are sampled."),
 "C10": ("Every build runs under catch_unwind on a watchdog thread with overflow checks and debug assertions on; Panic/Timeout outcomes match no action. Covered: seeded lengths up to 8 000 (every length in thorough), the 2^16 neighbourhood, 10^5/10^6 and 390-537 MB inputs (beyond 2^32 in thorough), builds that follow a rejected or failing request on the same thread (aftermath), inputs discovered by a coverage-guided fuzzer, blocks shaped at the codeword level (incl. blocks whose Reed-Solomon division passes through runs of zero coefficients), six content kinds, every byte value as only content, the empty input, all combinations of {unset, smallest, largest} per option.",
         "Non-termination is bounded by a 30 s watchdog, not proved. Memory safety is what Rust's checks plus the enabled assertions trap."),
 "C11": ("The recorder hook gives the eight candidates as the selection loop saw them; TLC computes the documented penalty of each (runs, 1011101 windows, 2x2 blocks, dark ratio; line-scan formulation proved equal to the per-cell one on sample matrices) and the emitted mask must be an arg-min; a forced mask must override. Inputs are selected for close calls (700 closest of 12 000 small symbols), uniform contents reach the highest penalties, and a steered search puts a candidate exactly on a step of the dark-ratio term (2/5 or 3/5 of the modules dark, versions whose side is a multiple of 5) while within ten points of the best other candidate. Design level: the selection loop is model-checked over all score vectors in a small range and proved for unbounded scores with Apalache. Public-API fallback: eight forced-mask builds plus the automatic one.",
         "Payload-sampled: only a flipped arg-min is observable. Ties are allowed."),
 "C12": ("MC_Render model-checks the register machine and the model's own SVG renderer (all 512 3x3 matrices x setter programs) against the same predicates; the harness generates every builder program up to length 2 (3 in thorough, sampled) over 21 abstract calls plus random longer ones, all 40 versions x 6 shapes, hand-made matrices (all dark, all light, stripes, border, sparse), custom shape callbacks, renderer sessions exported by TLC, a pool of 88 image strings (XML specials x non-ASCII in every order) and references discovered by a coverage-guided fuzzer, structured references (data URIs with parameters, URLs, paths) with a special inserted at every position and around every token (474 / about 3 300 documents); a roxmltree + kurbo sensor projects each document (well-formedness, viewBox, rectangles, per layer the cell of every sub-path, colours, image href) and TLC judges the projection against the register machine RegsAfter(program).",
         "XML and SVG path syntax are read by the sensor (roxmltree, kurbo), not by TLA+. hrefs are compared modulo XML attribute-value normalisation."),
 "C13": ("Pixmaps of 6 shapes x versions x margins x 6 fit modes x 4 colour pairs are projected to a palette and a per-cell palette index (plus cell uniformity at integer scale); TLC computes the expected side and premultiplied colours from the program and judges every cell centre (>= 4 px per module, or square at integer scale) and every cell of square symbols; the PNG is decoded independently and must equal the pixmap. Also: every fit side from 4 to 8 pixels per cell on two small symbols, fit sides up to 8 250 px, margins up to 1 100 (4 096 thorough) with a windowed observation.",
         "resvg's rasterisation is observed, not modelled; translucent module colours are outside the claimed domain."),
 "C14": ("TLC explores every interleaving of setters and builds of 2 builders x 2 threads (length 4/5) and every sequential program of one builder (length 6/7), exports them, and the harness replays each on real QRBuilders with persistent worker threads; every build is judged on the registers the MODEL holds for that builder, and equal registers must give equal results across all histories; seeded concurrent programs on 1..16 threads add shared builders and all three renderers (read-only, repeatable, distinguishing different codes); renderer sessions exported by TLC from RenderSession.tla (setter calls and renderings interleaved on one builder object) must render like a fresh builder given the same calls; the histories are also replayed with option values under which one builder is REJECTED (forced mode that cannot carry its input: caught panic, no claim about that build) or fails with a documented error, and `aftermath` puts eight kinds of such disturbances between two identical requests on one thread - what follows a rejected request is judged like any other build; a walk over hundreds of different requests in shuffled order and `tiewalk` (inputs whose two best masks tie exactly, each built after predecessors of the same version ending on every mask) compare matrix digests; builds and renderings are also issued from a thread-local destructor at thread exit; a soak run repeats one build and one rendering 6 000 / 70 000 times and every result must equal the first.",
         "Real OS schedules are sampled; the exhaustive interleaving is of the model, whose thread-locality is what per-thread validation binds to the code."),
 "C15": ("Type labels of every module of every built symbol (and of the blank symbols, and before/after each mask sweep) against the region map of QRLayout.tla; the number of data labels against 8 x total codewords + remainder bits.",
         "Modules where an alignment pattern lies on a timing line may carry either label (ISO assigns them to both)."),
 "C16": ("All 40 sizes x 2 / 6 symbols plus hand-made matrices: line count, line width, alphabet, one-module light border, and every module decoded back in place from the (top, bottom) reading; what QRCode::print writes to the process' standard output - captured through a redirected file descriptor and through a pseudo-terminal - must be that rendering and a line terminator; MC: decode o render = id on all 512 3x3 matrices for the model's renderer.",
         "The upper half of the first line is outside the picture and unconstrained."),
 "C17": ("wasm.rs compiled on the host through a guarded #[path] module. TLC exports every setter program over a 36-call alphabet (well-formed and malformed values) up to length 2 / 3; each is replayed under catch_unwind; the export must be empty exactly when the specification says the content cannot be encoded, equal to the native output (string equality when no malformed value is involved, field by field modulo havoc registers otherwise), and the native settings used for comparison must be the model's NativeOf(W_After(program)). Beyond the exported programs: 600 / 4 000 random longer programs, every version x level, every shape x frame shape, margins 0..20 and up to 1 000, an image size x gap x position grid (zero, fractional, oversized values), the capacity thresholds of version 40 (cap - 1, cap, cap + 1 per level and mode), contents drawn by Unicode category, and the matrix export for about 100 contents.",
         "Needs the hook tier (exit 2 without it). A malformed value leaves its register unspecified in the model."),
 "C18": ("Default frames for all 40 versions x 3 shapes x margins 0..16 (and 17, 33, 64, 120) (one event per (shape, margin) holding all versions: centred, module-aligned, below 40%, clear of the finder boxes, image centred and not larger, side monotone in the version); 420 / 6 000 explicit size / gap / position overrides on quarter-module and arbitrary 3-decimal values with tolerances derived from the two-decimal printing, a quarter of them drawn from the whole legal range (images from 0.01 module to three times the drawing, gaps up to a symbol side, positions anywhere and slightly outside); through the raster builder: explicit size, gap and position (x different from y) decide which cells show the frame colour.",
         "Overrides are sampled."),
 "C19": ("TLC explores the to_file machine under every fault class x strike offset and exports the 41 behaviours; each is replayed with real faults (missing directory, directory, path below a file, /proc, over-long name, symlink loop, /dev/full, RLIMIT_FSIZE at byte k) for both renderers on four option sets; Ok must coincide with 'no fault struck' and with the file holding exactly the in-memory rendering. The target is pre-populated with nothing / a shorter / a longer / an equally long file / an equally long file with the same first bytes; ten kinds of unusual legal names (spaces, unicode, leading dash, no extension, relative, through a symlink, 255 bytes); FileIO2.tla: two calls in flight on different paths of one directory, every interleaving, invariant Independent - its 200 pairs replayed on two threads released by a barrier, then 60 / 400 race rounds of four simultaneous writes.",
         "Write-time offsets are abstracted to five classes (0, 1, middle, len-1, len); 64 offsets are swept in thorough."),
}

# non-listed growth checks (./check growth): never reported under a listed property id
GROWTH = dict(scen=[("hooked", "compact", True), ("core", "conv", True), ("hooked", "candidates", True), ("core", "raster", True)], mc={"quick": [], "thorough": []},
              invariants="G01 bit container = bit-sequence model; G02 ranking score = documented penalty; G03 colour / shape conversions; G04 Module API, QRCode::default; G06 ImageBuilder forwards the embedded-image options")


def load_known():
    """known_findings.txt: 'finding: property=<id> key=<key> <text>' suppress exactly the diagnostics with that key;
    'fixed: ...' lines suppress nothing."""
    out = []
    p = os.path.join(ROOT, "known_findings.txt")
    if os.path.exists(p):
        for ln in open(p):
            m = re.match(r"finding:\s+property=(\S+)\s+key=(\S+)\s+(.*)", ln.strip())
            if m:
                out.append({"property": m.group(1), "key": m.group(2), "text": m.group(3)})
    return out


def diag_key(d):
    return d.get("key") or f"{d.get('tag','')}|{d.get('why','')}".replace(" ", "_")


INPUT_KEYS = ("ev", "tag", "input", "rep", "true_len", "opts", "program", "content", "version", "ecl", "mode", "mask", "size", "vals", "before", "errors", "deg", "byte",
              "data", "from", "to", "items", "fault", "limit", "renderer", "shape", "margin", "bid", "tid", "grp", "opt", "val", "name", "how", "c", "value", "type", "qrid", "len")


def event_key(line):
    """the part of an event that the driver chose (cell, input, options, program), without anything observed from the crate"""
    try:
        e = json.loads(line)
    except Exception:
        return hashlib.md5(line.encode()).hexdigest()
    if e.get("ev") in ("Blank",):
        e.pop("vals", None)
    return hashlib.md5(json.dumps({k: e[k] for k in INPUT_KEYS if k in e}, sort_keys=True).encode()).hexdigest()


def shorten(e, depth=0):
    if isinstance(e, dict):
        return {k: shorten(v, depth + 1) for k, v in e.items()}
    if isinstance(e, list):
        if len(json.dumps(e)) > 300:
            if e and all(isinstance(x, int) for x in e):
                return e[:16] + [f"... {len(e)} ints"]
            return [shorten(x, depth + 1) for x in e[:2]] + [f"... {len(e)} items"]
        return e
    if isinstance(e, str) and len(e) > 300:
        return e[:300] + "..."
    return e


def sample_event(line):
    try:
        return shorten(json.loads(line))
    except Exception:
        return line[:200]


def write_evidence(pid, tier, seed, level, coverage, assumptions, wall, violations):
    os.makedirs(os.path.join(ROOT, "evidence"), exist_ok=True)
    ev = {"property_id": pid, "tier": tier, "seed": seed, "level": level, "coverage": coverage,
          "assumptions": assumptions, "wall_s": round(wall, 2), "violations": violations}
    with open(os.path.join(ROOT, "evidence", f"{pid}.json"), "w") as f:
        json.dump(ev, f, indent=1)


# inductive invariants discharged by Apalache: (module, files to copy, extra arguments, obligations)
APALACHE = {
    "MaskSelect": ("MaskSelect.tla", ["MaskSelect.tla"], [],
                   [("Init => IndInv", ["--init=Init", "--inv=IndInv", "--length=0"]),
                    ("IndInv /\\ Next => IndInv'", ["--init=IndInit", "--inv=IndInv", "--length=1"]),
                    ("IndInv => Minimal", ["--init=IndInit", "--inv=Minimal", "--length=0"])]),
    "FileInd": ("FileInd.tla", ["FileInd.tla", "FileOps.tla"], ["--cinit=ConstInit"],
                [("Init => IndInv (any L >= 1)", ["--init=Init", "--inv=IndInv", "--length=0"]),
                 ("IndInv /\\ Next => IndInv'", ["--init=IndInit", "--inv=IndInv", "--length=1"]),
                 ("IndInv => FileAllOrError", ["--init=IndInit", "--inv=FileAllOrError", "--length=0"])]),
}


def run_apalache(wd, which, specdir=None):
    """Reads nothing from /repo: a failure is a tool error.  The result is a pure function of the copied modules (memoised)."""
    import shutil
    module, files, extra, obligations = APALACHE[which]
    specdir = specdir or runner.SPEC
    h = hashlib.sha256()
    for f in files:
        h.update(open(os.path.join(specdir, f), "rb").read())
    cpath = os.path.join(WORK, "cache", f"apalache_{which}_{h.hexdigest()}.json")
    if specdir == runner.SPEC and os.path.exists(cpath) and not os.environ.get("VERIF_NO_CACHE"):
        log(f"[apalache] {which}: result of the identical modules reused")
        return json.load(open(cpath))
    d = os.path.join(wd, "apalache_" + which)
    shutil.rmtree(d, ignore_errors=True)
    os.makedirs(d)
    for f in files:
        shutil.copy(os.path.join(specdir, f), d)
    res = []
    t0 = time.time()
    for name, args in obligations:
        rc, out = runner.sh(["apalache-mc", "check", *extra, *args, f"--out-dir={d}/out", module], 900, cwd=d, env={"JAVA_TOOL_OPTIONS": "-Xmx4g"})
        ok = rc == 0 and "EXITCODE: OK" in out
        if not ok:
            shutil.rmtree(d, ignore_errors=True)
            raise ToolError(f"Apalache did not discharge '{name}' of {module} (rc={rc}):\n" + "\n".join(out.splitlines()[-15:]))
        res.append(name)
    shutil.rmtree(d, ignore_errors=True)
    log(f"[apalache] {which}: {len(res)} obligations discharged in {time.time()-t0:.1f}s")
    if specdir == runner.SPEC:
        os.makedirs(os.path.dirname(cpath), exist_ok=True)
        json.dump(res, open(cpath, "w"))
    return res


def run_property(pid, tier, seed, replay=None, spec=None):
    t0 = time.time()
    spec = spec or PROPS[pid]
    wd = os.path.join(WORK, f"{pid}_{tier}")
    os.makedirs(wd, exist_ok=True)
    notes = []
    # 1. model checking of the design (reads nothing from /repo: failure = tool error)
    mc_states = mc_trans = 0
    mc_runs = []
    if not replay:
        for (mod, cfg) in spec["mc"].get(tier, spec["mc"]["quick"]):
            r = runner.model_check(mod, cfg, f"{pid}_{cfg}", workers=10)
            mc_states += r["distinct"]
            mc_trans += r["states"]
            mc_runs.append({"module": mod, "config": cfg, "distinct_states": r["distinct"], "states_generated": r["states"], "wall_s": round(r["wall"], 1),
                            "reused_for_identical_specification": bool(r.get("cached"))})
        for which in spec.get("apalache", []):
            obl = run_apalache(wd, which)
            mc_runs.append({"module": APALACHE[which][0], "checker": "apalache-mc", "obligations_discharged": obl})
    # 2. drive the implementation
    all_lines = []
    tv_total = {"events": 0, "diags": [], "notes": [], "wall": 0.0, "states": 0, "cached": 0}
    want_ids = None
    hdr = {}
    if replay:
        hdr = json.loads(open(replay).readline())
        seed, tier, want_ids = hdr["seed"], hdr["tier"], set(hdr["ids"])
    ran = []
    gen_counts = {}
    ship_stats = {"scenarios": 0, "identical": 0}
    bare_stats = {"scenarios": 0, "identical": 0}
    ship_lines = []
    bare_lines = []
    svgonly_lines = []
    for scen_index, (kind, scen, required) in enumerate(spec["scen"]):
        if replay and hdr.get("scenario") and hdr["scenario"] != scen:
            continue
        scen_key = scen
        try:
            binary = None
            kinds = kind.split("|")
            for ki, kd in enumerate(kinds):       # "hooked|wasm": the first flavour that builds against the tree under test
                try:
                    binary = runner.build_harness(kd)
                    used_kind = kd
                    if ki > 0:
                        notes.append(f"harness flavour '{kinds[0]}' does not build against the tree; scenario '{scen}' driven by flavour '{kd}'")
                    break
                except ToolError:
                    if ki == len(kinds) - 1:
                        raise
        except ToolError as e:
            if required:
                raise
            notes.append(f"hook tier unavailable, scenario '{scen}' skipped: {str(e)[:300]}")
            log(f"[skip] {scen}: hooked harness does not build; the public-API scenarios decide")
            continue
        if replay and hdr.get("build") == "shipping":
            binary = runner.build_harness(runner.SHIP[used_kind])
        if replay and hdr.get("build") in ("bare", "svgonly"):
            binary = runner.build_harness(hdr["build"])
        scen_full, variant = scen, ""
        if ":" in scen:
            scen, variant = scen.split(":", 1)
        evp = os.path.join(wd, f"{scen_full.replace(':', '_')}.ndjson")
        extra = []
        if variant:
            extra += ["--grp0", str(100000 * (1 + scen_index))]
        if variant.endswith("Rejected"):      # same histories as ModeVersion, replayed with option values under which builder 1 is rejected
            extra += ["--mapping", "rejected"]
        if scen in DISCOVER:      # coverage-guided input discovery: the fuzzer proposes inputs, the harness builds them, TLC judges them
            target, secs = DISCOVER[scen]
            corpus = None
            try:
                corpus = runner.discover(target, secs[tier], seed, max_len=48 if tier == "quick" else 300)
            except ToolError as e:
                if scen in ("discovered", "svgdiscovered"):       # scenarios that consist of discovered inputs only
                    if required:
                        raise
                    notes.append(f"input discovery unavailable, scenario '{scen}' skipped: {str(e)[:300]}")
                    log(f"[skip] {scen}: the fuzz target did not build or run; the other scenarios decide")
                    continue
                notes.append(f"input discovery unavailable, scenario '{scen}' runs with its own generators only: {str(e)[:300]}")
            if corpus:
                extra += ["--corpus", corpus]
                gen_counts["discovered:" + scen] = len(os.listdir(corpus))
        if scen in GEN:
            mod, cfg, alpha = GEN[scen]
            cfg = cfg.format(tier=tier, variant=variant)
            g = runner.model_check(mod, cfg, f"{pid}_gen_{scen}{variant}", workers=1)
            if not g["replays"]:
                raise ToolError(f"{mod}/{cfg} exported no behaviours")
            bp = os.path.join(wd, f"{scen}{variant}_behaviours.ndjson")
            open(bp, "w").write("\n".join(json.dumps(x) for x in g["replays"]) + "\n")
            extra += ["--replay-in", bp]
            if alpha:
                ap = os.path.join(wd, f"{scen}_alphabet.json")
                open(ap, "w").write(g["alphabet"])
                extra += ["--alphabet", ap]
            mc_states += g["distinct"]
            mc_trans += g["states"]
            mc_runs.append({"module": mod, "config": cfg, "distinct_states": g["distinct"], "states_generated": g["states"], "wall_s": round(g["wall"], 1),
                            "behaviours_exported_for_replay": len(g["replays"])})
            gen_counts[scen + variant] = len(g["replays"])
        if scen in DIFF_SCENS and not replay:
            # the sampling is a pure function of (sources of the crate, reference copy, seed, tier): reused across the checks of one tree
            cdir = os.path.join(runner.WORK, "diffcache")
            os.makedirs(cdir, exist_ok=True)
            cpath = os.path.join(cdir, f"{scen}-{runner.src_hash()}-{seed}-{tier}.ndjson")
            if os.path.exists(cpath):
                shutil.copy(cpath, evp)
                log(f"[drive] {scen}: sampling of the identical sources reused")
            else:
                runner.drive(binary, scen, seed, tier, evp, extra=extra)
                shutil.copy(evp, cpath)
        else:
            runner.drive(binary, scen, seed, tier, evp, extra=extra)
        if want_ids is not None:
            keep = []
            for l in open(evp).read().split("\n"):
                if l.strip():
                    j = json.loads(l)
                    if j["id"] in want_ids or (j.get("grp", 0) and j.get("grp", 0) in hdr.get("grps", [])):
                        keep.append(l)
            open(evp, "w").write("\n".join(keep) + "\n")
        lines = [l for l in open(evp).read().split("\n") if l.strip()]
        all_lines += lines
        r = runner.validate_trace(evp, os.path.join(wd, "tv_" + scen + variant))
        for k in ("events", "wall", "states"):
            tv_total[k] += r[k]
        tv_total["cached"] += 1 if r.get("cached") else 0
        tv_total["diags"] += [dict(d, scenario=scen_full) for d in r["diags"]]
        tv_total["notes"] += r["notes"]
        ran.append(scen_full)
        # second build configuration: the same scenario driven against the crate compiled as users ship it (no debug assertions,
        # no overflow checks).  Identical trace -> identical verdict, nothing more to judge; a different trace is judged as well.
        twins = []
        if not replay and scen not in NO_TWIN:
            twins.append(("shipping", runner.SHIP[used_kind]))
            if used_kind == "core" and scen in BARE_SCENS:
                twins.append(("bare", "bare"))
            if used_kind == "core" and scen in SVGONLY_SCENS:
                twins.append(("svgonly", "svgonly"))
        for tname, tkind in twins:
            try:
                ship = runner.build_harness(tkind)
            except ToolError as e:
                ship = None
                notes.append(f"{tname} flavour does not build: {str(e)[:200]}")
            if ship:
                evs = evp[:-len(".ndjson")] + f".{tname}.ndjson"
                runner.drive(ship, scen, seed, tier, evs, extra=extra)
                same = open(evs, "rb").read() == open(evp, "rb").read()
                st = ship_stats if tname == "shipping" else bare_stats        # (bare and svgonly are counted together: feature sets)
                st["scenarios"] += 1
                st["identical"] += 1 if same else 0
                if not same:
                    r2 = runner.validate_trace(evs, os.path.join(wd, f"tv_{tname}_" + scen + variant))
                    tv_total["events"] += r2["events"]
                    tv_total["diags"] += [dict(d, scenario=scen_full, build=tname) for d in r2["diags"]]
                    {"shipping": ship_lines, "bare": bare_lines, "svgonly": svgonly_lines}[tname].extend(l for l in open(evs).read().split("\n") if l.strip())
                os.remove(evs)
    # 3. verdict: only diagnostics of this property; known findings subtracted
    own = [d for d in tv_total["diags"] if d["property"] == pid or (pid == "G01" and d["property"].startswith("G"))]
    others = {}
    for d in tv_total["diags"]:
        if d["property"] != pid:
            others[d["property"]] = others.get(d["property"], 0) + 1
    tool = [d for d in tv_total["diags"] if d["property"] == "TOOL"]
    if tool:
        raise ToolError(f"trace contains events the trace specification cannot place: {tool[:3]}")
    known = [k for k in load_known() if k["property"] == pid]
    kkeys = {k["key"] for k in known}
    hits = [d for d in own if diag_key(d) in kkeys]
    fresh = [d for d in own if diag_key(d) not in kkeys]
    for k in known:
        if any(diag_key(d) == k["key"] for d in hits):
            print(f"KNOWN-FINDING: property={pid} {k['key']} {k['text']}")
    tags = {}
    for l in all_lines:
        m = re.search(r'"tag":"([^"]*)"', l)
        if m:
            tags[m.group(1)] = tags.get(m.group(1), 0) + 1
    # distinct = distinct events once everything observed from the implementation is removed: (scenario cell, input, options, program)
    distinct = len({event_key(l) for l in all_lines})
    doms = {} if replay else domains.check(pid, tier, all_lines, gen_counts)
    short = {k: v for k, v in doms.items() if not v["complete"]}
    if short:
        raise ToolError(f"a driver did not enumerate what the check claims to enumerate: {short}")
    n = len(all_lines)
    picks = [all_lines[i] for i in sorted({0, n // 3, (2 * n) // 3, n - 1}) if 0 <= i < n]
    coverage = {
        "states": max(mc_states, 1) if mc_runs else max(tv_total["states"], 1),
        "transitions": max(mc_trans, 1) if mc_runs else max(tv_total["states"], 1),
        "traces_validated_against_impl": tv_total["events"],
        "samples": [sample_event(l) for l in picks],
        "evaluations": tv_total["events"],
        "distinct_nontrivial": distinct,
        "rule": "one evaluation = one event recorded from the real crate and judged by TLC against spec/Trace.tla; distinct = distinct (scenario cell, input, options) triples; every event is non-trivial in that the property predicates are evaluated on the implementation's observed output",
        "model_checking_runs": mc_runs,
        "distinct_cells": len(tags),
        "tv_wall_s": round(tv_total["wall"], 1),
        "tv_results_reused_for_identical_trace": tv_total["cached"],
        "diagnostics_own": len(own), "diagnostics_known": len(hits),
        "other_property_diagnostics": others,
        "spec_invariants": spec.get("invariants", ""),
        "scenarios": ran,
        "bare_build": dict(bare_stats, note="scenarios that need no renderer are driven a third time against the crate compiled WITHOUT its svg / image features, the SVG scenarios against the crate with svg but without image; identical trace shares the verdict, a different one is judged too"),
        "shipping_build": dict(ship_stats, note="every scenario is driven a second time against the crate compiled without debug assertions and overflow checks (same harness flavour, shipping profile); a byte-identical trace shares the verdict, a different one is judged too"),
        "notes": notes + [json.dumps(x)[:400] for x in tv_total["notes"][:3]],
        "exhaustive": False,
        "enumerated_domains": doms,
        "exhaustive_note": "the dimensions listed under enumerated_domains were enumerated completely (counted by the runner against their cardinality); payload contents inside a cell are sampled, hence exhaustive=false overall",
    }
    assumptions = ["TLC evaluates the TLA+ operators correctly", "payload contents are sampled (seeded); configuration cells are enumerated",
                   "harness sensors project implementation output faithfully"]
    nviol = 0
    if fresh:
        os.makedirs(os.path.join(ROOT, "replay"), exist_ok=True)
        byid = {"": {}, "shipping": {}, "bare": {}, "svgonly": {}}
        for b_, ls_ in (("", all_lines), ("shipping", ship_lines), ("bare", bare_lines), ("svgonly", svgonly_lines)):
            for l in ls_:
                m = re.search(r'"id":(\d+)', l)
                if m:
                    byid[b_].setdefault(int(m.group(1)), []).append(l)
        groups = {}
        for d in fresh:
            groups.setdefault((d["scenario"], d["why"], d.get("build", "")), []).append(d)
        for n_, ((scen, why, build), ds) in enumerate(sorted(groups.items())):
            path = os.path.join(ROOT, "replay", f"{pid}-{tier}-{seed}-{n_}.ndjson")
            ids = sorted({d["id"] for d in ds})[:20]
            evs = [l for i in ids for l in byid[build].get(i, []) if f'"tag":"{[d for d in ds if d["id"] == i][0].get("tag","")}"' in l]
            grps = sorted({json.loads(l).get("grp", 0) for l in evs} - {0})
            if build == "shipping":
                why += " [crate compiled without debug assertions and overflow checks; the default test profile does not show it]"
            if build == "bare":
                why += " [crate compiled without its svg / image features]"
            if build == "svgonly":
                why += " [crate compiled with svg but without image]"
            with open(path, "w") as f:
                f.write(json.dumps({"property": pid, "why": why, "scenario": scen, "build": build, "seed": seed, "tier": tier, "ids": ids, "grps": grps, "count": len(ds),
                                    "replay": f"./check {pid} --replay {path}"}) + "\n")
                for l in evs:
                    f.write(l + "\n")
            print(f"VIOLATION property={pid} replay={path}")
            log(f"  {pid}: {len(ds)} event(s) in scenario {scen}: {why}; e.g. tag={ds[0].get('tag')} id={ds[0].get('id')}")
            nviol += 1
    if not replay:      # a replay re-validates one recorded slice; it is not a coverage statement
        write_evidence("growth" if pid.startswith("G") else pid, tier, seed, "model_checking", coverage, assumptions, time.time() - t0, nviol)
    return 1 if nviol else 0
