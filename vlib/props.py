"""Per-property decision procedures: which MC configurations, which driver scenarios, which diagnostics count."""
import json, os, re, sys, time
from . import runner
from .runner import ToolError, log, ROOT, WORK

PIPE_Q = ("MC_Pipeline.tla", "MC_Pipeline_quick.cfg")
PIPE_T = ("MC_Pipeline.tla", "MC_Pipeline_thorough.cfg")

# id -> description of the check.  scen: list of (harness kind, scenario name); mc: per tier
PROPS = {
    "C01": dict(scen=[("core", "cells")], mc={"quick": [PIPE_Q], "thorough": [PIPE_T]},
                invariants="RoundTripInv", ref="7/C01"),
    "C03": dict(scen=[("core", "cells")], mc={"quick": [PIPE_Q], "thorough": [PIPE_T]},
                invariants="FunctionPatternsInv", ref="7/C03"),
    "C15": dict(scen=[("core", "cells")], mc={"quick": [PIPE_Q], "thorough": [PIPE_T]},
                invariants="LabelsExact (TV), FunctionPatternsInv (MC)", ref="7/C15"),
}


def load_known():
    """known_findings.txt: 'finding: property=<id> key=<key> <text>' suppress exactly the diagnostics with that key;
    'fixed: ...' lines suppress nothing."""
    out = []
    p = os.path.join(ROOT, "known_findings.txt")
    if os.path.exists(p):
        for ln in open(p):
            m = re.match(r"finding:\s+property=(\S+)\s+key=(\S+)\s+(.*)", ln.strip())
            if m:
                out.append({"property": m.group(1), "key": m.group(2), "text": m.group(3)})
    return out


def diag_key(d):
    return f"{d.get('tag','')}|{d.get('why','')}".replace(" ", "_")


def sample_event(line):
    try:
        e = json.loads(line)
    except Exception:
        return line[:200]
    o = e.get("out")
    if isinstance(o, dict):
        for k in ("vals", "types"):
            if k in o:
                o[k] = f"<{len(o[k])} packed rows>"
    if isinstance(e.get("input"), list) and len(e["input"]) > 24:
        e["input"] = e["input"][:24] + [f"... {len(e['input'])} bytes"]
    for k in list(e.keys()):
        if isinstance(e[k], list) and len(json.dumps(e[k])) > 400:
            e[k] = f"<{len(e[k])} items>"
    return e


def write_evidence(pid, tier, seed, level, coverage, assumptions, wall, violations):
    os.makedirs(os.path.join(ROOT, "evidence"), exist_ok=True)
    ev = {"property_id": pid, "tier": tier, "seed": seed, "level": level, "coverage": coverage,
          "assumptions": assumptions, "wall_s": round(wall, 2), "violations": violations}
    with open(os.path.join(ROOT, "evidence", f"{pid}.json"), "w") as f:
        json.dump(ev, f, indent=1)


def run_property(pid, tier, seed, replay=None):
    t0 = time.time()
    spec = PROPS[pid]
    wd = os.path.join(WORK, f"{pid}_{tier}")
    os.makedirs(wd, exist_ok=True)
    # 1. model checking of the design (reads nothing from /repo: failure = tool error)
    mc_states = mc_trans = 0
    mc_runs = []
    if not replay:
        for (mod, cfg) in spec["mc"].get(tier, spec["mc"]["quick"]):
            r = runner.model_check(mod, cfg, f"{pid}_{cfg}", workers=10)
            mc_states += r["distinct"]
            mc_trans += r["states"]
            mc_runs.append({"module": mod, "config": cfg, "distinct_states": r["distinct"], "states_generated": r["states"], "wall_s": round(r["wall"], 1)})
    # 2. drive the implementation
    all_lines = []
    tv_total = {"events": 0, "diags": [], "notes": [], "wall": 0.0, "states": 0}
    want_ids = None
    if replay:
        hdr = json.loads(open(replay).readline())
        seed, tier, want_ids = hdr["seed"], hdr["tier"], set(hdr["ids"])
    for kind, scen in spec["scen"]:
        binary = runner.build_harness(kind)
        evp = os.path.join(wd, f"{scen}.ndjson")
        runner.drive(binary, scen, seed, tier, evp)
        if want_ids is not None:
            keep = [l for l in open(evp).read().split("\n") if l.strip() and (json.loads(l)["id"] in want_ids or json.loads(l).get("grp", 0) in hdr.get("grps", []))]
            open(evp, "w").write("\n".join(keep) + "\n")
        lines = [l for l in open(evp).read().split("\n") if l.strip()]
        all_lines += lines
        r = runner.validate_trace(evp, os.path.join(wd, "tv_" + scen))
        for k in ("events", "wall", "states"):
            tv_total[k] += r[k]
        tv_total["diags"] += [dict(d, scenario=scen) for d in r["diags"]]
        tv_total["notes"] += r["notes"]
    # 3. verdict: only diagnostics of this property; known findings subtracted
    own = [d for d in tv_total["diags"] if d["property"] == pid]
    others = {}
    for d in tv_total["diags"]:
        if d["property"] != pid:
            others[d["property"]] = others.get(d["property"], 0) + 1
    tool = [d for d in tv_total["diags"] if d["property"] == "TOOL"]
    if tool:
        raise ToolError(f"trace contains events the trace specification does not know: {tool[:3]}")
    known = [k for k in load_known() if k["property"] == pid]
    kkeys = {k["key"] for k in known}
    hits = [d for d in own if diag_key(d) in kkeys]
    fresh = [d for d in own if diag_key(d) not in kkeys]
    for k in known:
        if any(diag_key(d) == k["key"] for d in hits):
            print(f"KNOWN-FINDING: property={pid} {k['key']} {k['text']}")
    tags = {}
    for l in all_lines:
        m = re.search(r'"tag":"([^"]*)"', l)
        if m:
            tags[m.group(1)] = tags.get(m.group(1), 0) + 1
    # distinct non-trivial = distinct (tag, input, opts) combinations
    distinct = len({re.sub(r'"id":\d+,?', "", re.sub(r'"out":\{.*', "", l)) for l in all_lines})
    coverage = {
        "states": max(mc_states, 1) if mc_runs else tv_total["states"] or 1,
        "transitions": max(mc_trans, 1) if mc_runs else tv_total["states"] or 1,
        "traces_validated_against_impl": tv_total["events"],
        "samples": [sample_event(l) for l in (all_lines[:2] + all_lines[len(all_lines)//2:len(all_lines)//2+1] + all_lines[-1:])],
        "evaluations": tv_total["events"],
        "distinct_nontrivial": distinct,
        "rule": "one evaluation = one event recorded from the real crate and judged by TLC against spec/Trace.tla; distinct = distinct (scenario cell, input, options) triples; every event is non-trivial in that all property predicates are evaluated on the implementation's observed output",
        "model_checking_runs": mc_runs,
        "distinct_cells": len(tags),
        "tv_wall_s": round(tv_total["wall"], 1),
        "diagnostics_own": len(own), "diagnostics_known": len(hits),
        "other_property_diagnostics": others,
        "spec_invariants": spec.get("invariants", ""),
        "scenarios": [s for _, s in spec["scen"]],
    }
    assumptions = ["TLC evaluates the TLA+ operators correctly", "payload contents are sampled (seeded); configuration cells are enumerated",
                   "harness sensors project implementation output faithfully (matrix packer)"]
    nviol = 0
    if fresh:
        os.makedirs(os.path.join(ROOT, "replay"), exist_ok=True)
        byid = {}
        for l in all_lines:
            m = re.search(r'"id":(\d+)', l)
            if m:
                byid[int(m.group(1))] = l
        groups = {}
        for d in fresh:
            groups.setdefault(d["why"], []).append(d)
        for n, (why, ds) in enumerate(sorted(groups.items())):
            path = os.path.join(ROOT, "replay", f"{pid}-{tier}-{seed}-{n}.ndjson")
            ids = sorted({d["id"] for d in ds})[:20]
            grps = sorted({json.loads(byid[i]).get("grp", 0) for i in ids if i in byid} - {0})
            with open(path, "w") as f:
                f.write(json.dumps({"property": pid, "why": why, "seed": seed, "tier": tier, "ids": ids, "grps": grps, "count": len(ds),
                                    "replay": f"./check {pid} --replay {path}"}) + "\n")
                for i in ids:
                    if i in byid:
                        f.write(byid[i] + "\n")
            print(f"VIOLATION property={pid} replay={path}")
            log(f"  {pid}: {len(ds)} event(s): {why}; e.g. tag={ds[0].get('tag')} id={ds[0].get('id')}")
            nviol += 1
    write_evidence(pid, tier, seed, "model_checking", coverage, assumptions, time.time() - t0, nviol)
    return 1 if nviol else 0
