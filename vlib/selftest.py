"""./check selftest -- demonstrates that the specification is bound to the code and that its invariants are not vacuous.
 (a) trace corruption: events recorded from the real crate are corrupted in one field; trace validation must reject each
     with a diagnostic of the expected property;
 (b) specification mutants: one-line changes of the construction side of spec/FastQR.tla (and of MaskSelect, FileOps, Builder);
     TLC must report the corresponding invariant as violated;
 (c) coverage: TLC -coverage 1 on MC_Pipeline; every action of Next must have been taken.
Exit 0 when every expectation is met, 2 otherwise (this is about the machinery, never a VIOLATION)."""
import json, os, re, shutil, sys, time
from . import runner
from .runner import ToolError, log, ROOT, WORK, SPEC


def _events(path):
    return [json.loads(l) for l in open(path) if l.strip()]


def _dump(evs, path):
    with open(path, "w") as f:
        for e in evs:
            f.write(json.dumps(e, separators=(",", ":")) + "\n")


def _flip(vals, r, c):
    vals[r][c // 24] ^= 1 << (c % 24)


def corruptions(wd, seed):
    """yields (name, events, expected property ids (any of), description)"""
    core = runner.build_harness("core")
    out = []
    p = os.path.join(wd, "cells.ndjson")
    runner.drive(core, "cells", seed, "quick", p)
    evs = [e for e in _events(p) if e["out"]["kind"] == "Ok" and e["out"]["size"] <= 33][:40]
    base = evs[:12]

    def variant(name, props, desc, fn, src=base, k=3):
        es = json.loads(json.dumps(src))
        fn(es[k])
        out.append((name, es, props, desc))

    n = base[3]["out"]["size"]
    variant("data-module", {"C01", "C02", "C06", "C07"}, "one data module flipped", lambda e: _flip(e["out"]["vals"], e["out"]["size"] - 1, e["out"]["size"] - 1))
    variant("finder-module", {"C03"}, "one finder module flipped", lambda e: _flip(e["out"]["vals"], 0, 0))
    variant("timing-module", {"C03"}, "one timing module flipped", lambda e: _flip(e["out"]["vals"], 6, 10))
    variant("format-module", {"C04"}, "one format-information module flipped", lambda e: _flip(e["out"]["vals"], 8, 0))
    variant("reported-mask", {"C04"}, "reported mask changed", lambda e: e["out"].__setitem__("mask", (e["out"]["mask"] + 1) % 8))
    variant("reported-mode", {"C04", "C09"}, "reported mode changed", lambda e: e["out"].__setitem__("mode", (e["out"]["mode"] + 1) % 3))
    variant("label", {"C15"}, "one type label changed", lambda e: e["out"]["types"][10].__setitem__(1, e["out"]["types"][10][1] ^ 1))
    variant("tail", {"C03"}, "a module outside the square set", lambda e: e["out"].__setitem__("tail_clean", False))
    variant("input-byte", {"C01", "C06"}, "one input byte changed (symbol no longer decodes to it)",
            lambda e: e["input"].__setitem__(0, (e["input"][0] ^ 1) if e["input"] else 0), src=[x for x in base if len(x["input"]) > 2], k=1)
    variant("row-accessor", {"C01"}, "the public row accessor disagrees with the matrix", lambda e: e["out"].__setitem__("rows_agree", False))
    variant("panic", {"C10"}, "outcome replaced by a panic", lambda e: e.__setitem__("out", {"kind": "Panic", "why": "Panic:seeded"}))
    variant("wrong-error", {"C05"}, "symbol replaced by an error outcome", lambda e: e.__setitem__("out", {"kind": "Err", "why": "EncodedData"}))
    # render side
    for scen, picks in (("text", [("text-char", {"C16"}, "one character of a text line changed", lambda e: e["lines"][3].__setitem__(4, 9608 if e["lines"][3][4] != 9608 else 32)),
                                  ("print-short", {"C16"}, "print() drops the last line of the rendering", lambda e: e.__setitem__("printed", e["printed"][:-2] + [[]]))]),
                        ("svg", [("svg-missing-cell", {"C12"}, "one sub-path removed", lambda e: e["obs"]["layers"][0]["cells"].pop()),
                                 ("svg-moved-cell", {"C12"}, "one sub-path moved", lambda e: e["obs"]["layers"][0]["cells"].__setitem__(0, [0, 0])),
                                 ("svg-fill", {"C12"}, "layer colour changed", lambda e: e["obs"]["layers"][0]["fill"].__setitem__(1, 49)),
                                 ("svg-malformed", {"C12"}, "document not well-formed", lambda e: e["obs"].__setitem__("wellformed", 0)),
                                 ("svg-viewbox", {"C12"}, "viewBox changed", lambda e: e["obs"]["viewbox"].__setitem__(2, e["obs"]["viewbox"][2] + 1000)),
                                 ("svg-mutated-qr", {"C14"}, "renderer modified the QR code", lambda e: e.__setitem__("qr_unchanged", 0))]),
                        ("raster", [("raster-side", {"C13"}, "pixmap one pixel wider", lambda e: e["obs"].__setitem__("w", e["obs"]["w"] + 1)),
                                    ("raster-centre", {"C13"}, "one cell centre of the other colour", lambda e: e["obs"]["centre"][5].__setitem__(0, e["obs"]["centre"][5][0] ^ 1)),
                                    ("raster-png", {"C13"}, "PNG does not decode to the pixmap", lambda e: e["obs"].__setitem__("png_equal", 0))])):
        p = os.path.join(wd, f"{scen}.ndjson")
        runner.drive(core, scen, seed, "quick", p)
        evs = _events(p)
        if scen == "raster":
            evs = [e for e in evs if e["obs"]["w"] >= 4 * e["obs"]["cells"] and e["obs"]["cells"] < 40][:6]
        else:
            evs = [e for e in evs if e["size"] <= 29][:6]
        for name, props, desc, fn in picks:
            es = json.loads(json.dumps(evs))
            fn(es[2])
            out.append((name, es, props, desc))
    # frame sweep, file, histories
    p = os.path.join(wd, "frames.ndjson")
    runner.drive(core, "frames", seed, "quick", p)
    evs = [e for e in _events(p) if e["ev"] == "FrameSweep"][:2]
    es = json.loads(json.dumps(evs)); es[0]["rows"][20]["rects"][1]["x"] += 1000
    out.append(("frame-shifted", es, {"C18"}, "default frame shifted by one module"))
    es = json.loads(json.dumps(evs)); es[1]["rows"][30]["rects"][1]["w"] -= 4000; es[1]["rows"][30]["rects"][1]["h"] -= 4000; es[1]["rows"][30]["rects"][1]["x"] += 2000; es[1]["rows"][30]["rects"][1]["y"] += 2000
    out.append(("frame-shrinks", es, {"C18"}, "frame side shrinks at one version"))
    fe = [{"ev": "FileOp", "id": 1, "tag": "file:svg:EFBIG:2", "renderer": "svg", "fault": "EFBIG", "len": 1000, "limit": 500, "pre": "absent", "ret": "Ok", "msg": "", "file": "prefix", "k": 500},
          {"ev": "FileOp", "id": 2, "tag": "file:svg:none:0", "renderer": "svg", "fault": "none", "len": 1000, "limit": -1, "pre": "absent", "ret": "Ok", "msg": "", "file": "other", "k": 1000},
          {"ev": "FileOp", "id": 3, "tag": "file:png:ENOENT:0", "renderer": "png", "fault": "ENOENT", "len": 1000, "limit": -1, "pre": "absent", "ret": "Panic", "msg": "", "file": "special", "k": -1}]
    # a build that differs after a rejected request on the same builder registers (aftermath pattern)
    p = os.path.join(wd, "aftermath.ndjson")
    runner.drive(core, "aftermath", seed, "quick", p)
    evs = _events(p)
    g = evs[0]["grp"]
    es = [e for e in evs if e["grp"] == g]
    last = [i for i, e in enumerate(es) if e["ev"] == "HBuild" and e["bid"] == 1][-1]
    es = json.loads(json.dumps(es)); _flip(es[last]["out"]["vals"], es[last]["out"]["size"] - 1, es[last]["out"]["size"] - 1)
    out.append(("after-rejected", es, {"C14"}, "the request repeated after a disturbance returns another matrix"))
    for i, (nm, desc) in enumerate([("file-ok-on-fault", "Ok returned although the write was cut short"), ("file-ok-wrong-bytes", "Ok returned with other bytes on disk"), ("file-panic", "panic instead of an error value")]):
        out.append((nm, [fe[i]], {"C19"}, desc))
    return out


SPEC_MUTANTS = [
    # (name, file, old, new, module, cfg, invariant expected to fail)
    ("terminator-3", "FastQR.tla", "Min2(4, room)", "Min2(3, room)", "MC_Pipeline.tla", "MC_Pipeline_quick.cfg", "StagedEqualsClosedForm|DataCodewordsISOInv|RoundTripInv"),
    ("pad-order", "FastQR.tla", "IF (k - have) % 2 = 1 THEN 236 ELSE 17", "IF (k - have) % 2 = 1 THEN 17 ELSE 236", "MC_Pipeline.tla", "MC_Pipeline_quick.cfg", "StagedEqualsClosedForm|DataCodewordsISOInv"),
    ("argmin-reversed", "FastQR.tla", "better == j.bestScore < 0 \\/ p < j.bestScore", "better == j.bestScore < 0 \\/ p > j.bestScore", "MC_Pipeline.tla", "MC_Pipeline_quick.cfg", "MaskMinimalInv"),
    ("forced-mask-ignored", "FastQR.tla", "mask |-> IF j.b.mask >= 0 THEN j.b.mask ELSE j.best]", "mask |-> j.best]", "MC_Pipeline.tla", "MC_Pipeline_quick.cfg", "MaskMinimalInv|FormatVersionTruthInv"),
    ("score-loop-stuck", "FastQR.tla", "[j EXCEPT !.next = j.next + 1, !.cands = Append(j.cands, p),", "[j EXCEPT !.next = j.next, !.cands = Append(j.cands, p),", "MC_Pipeline.tla", "MC_Pipeline_cov.cfg", "Progress"),
    ("default-level-M", "QRProps.tla", 'WantLevel(b) == IF b.ecl = "none" THEN "Q" ELSE b.ecl', 'WantLevel(b) == IF b.ecl = "none" THEN "M" ELSE b.ecl', "MC_Lemmas.tla", None, None),
    ("ec-shifted", "FastQR.tla", "eblk |-> [bk \\in 1..nb |-> RSRemainder(dblk[bk], ec)]", "eblk |-> [bk \\in 1..nb |-> RSRemainder(Tail(dblk[bk]) \\o <<0>>, ec)]", "MC_Pipeline.tla", "MC_Pipeline_quick.cfg", "BlocksValidInv|ECIsRemainderInv"),
    ("format-copy2-shift", "FastQR.tla", "![Idx(n, FormatPos2(n, bt)[1], FormatPos2(n, bt)[2])] = Bit(w, bt)]", "![Idx(n, FormatPos2(n, bt)[1], FormatPos2(n, bt)[2])] = Bit(w, (bt + 1) % 15)]", "MC_Pipeline.tla", "MC_Pipeline_quick.cfg", "FormatVersionTruthInv"),
    ("mask-touches-format", "QRMask.tla", None, None, None, None, None),
    ("fits-strict", "QREncode.tla", "SegBits(mode, n) <= 8 * DataCW(v, e) /\\ n < 2^Cci(mode, v)", "SegBits(mode, n) < 8 * DataCW(v, e) /\\ n < 2^Cci(mode, v)", "MC_Lemmas.tla", "MC_Lemmas_quick.cfg", "LemmaInv"),
    ("select-loop-skips-mask7", "MaskSelect.tla", "Step == /\\ i <= 7", "Step == /\\ i <= 6", "MC_MaskSelect.tla", "MC_MaskSelect_quick.cfg", "deadlock|Minimal|IndInv"),
    ("select-loop-greater", "MaskSelect.tla", "IF bestScore < 0 \\/ score[i] < bestScore", "IF bestScore < 0 \\/ score[i] > bestScore", "MC_MaskSelect.tla", "MC_MaskSelect_quick.cfg", "Minimal|IndInv"),
    ("file-ok-after-write-fault", "FileOps.tla", '[] fs.phase \\in {"create_failed", "write_failed"} -> F_ReturnErr(fs)', '[] fs.phase \\in {"create_failed", "write_failed"} -> F_ReturnOk(fs)', "FileIO.tla", "MC_FileIO.cfg", "FileAllOrError"),
    ("file-shared-temp", "FileIO2.tla", "           /\\ fs' = [fs EXCEPT ![w] = F_Step(fs[w], fault[w], off[w])]", "           /\\ fs' = [fs EXCEPT ![w] = F_Step(fs[w], fault[w], off[w]), ![3 - w] = IF rel = \"samestem\" /\\ fs[w].phase = \"start\" /\\ @.phase = \"writing\" THEN [@ EXCEPT !.phase = \"write_failed\"] ELSE @]", "FileIO2.tla", "MC_FileIO2.cfg", "Independent"),
    ("setter-under-build", "Builder.tla", "Set(b, o, v) == /\\ ~Busy(b) /\\ Len(hist) < MaxLen", "Set(b, o, v) == /\\ Len(hist) < MaxLen", "MC_Builder.tla", "MC_Builder_EclMask_quick.cfg", "SnapshotIsRegisters"),
    ("text-border-dark", "Render.tla", "LET px(p, x) == IF p = 0 \\/ p = n+1 \\/ x = 0 \\/ x = n+1 THEN 0", "LET px(p, x) == IF p = 0 \\/ p = n+1 \\/ x = 0 \\/ x = n+1 THEN 1", "MC_Render.tla", "MC_Render_quick.cfg", "TextExact"),
]


def spec_mutants(wd):
    res = []
    for name, fn, old, new, mod, cfg, inv in SPEC_MUTANTS:
        if not cfg:
            continue
        d = os.path.join(wd, "mut_" + name)
        shutil.rmtree(d, ignore_errors=True)
        shutil.copytree(SPEC, d, ignore=shutil.ignore_patterns("states", "*.out"))
        p = os.path.join(d, fn)
        s = open(p).read()
        if old not in s:
            raise ToolError(f"selftest: mutant '{name}' no longer applies to {fn}")
        open(p, "w").write(s.replace(old, new, 1))
        rc, out = runner.sh(["tlc", "-workers", "8", "-metadir", os.path.join(d, "meta"), "-cleanup", "-noGenerateSpecTE", "-config", cfg, mod], 1200,
                            env={"JAVA_TOOL_OPTIONS": runner.JAVA_OPTS + " -Xmx6g"}, cwd=d)
        m = re.search(r"Invariant (\w+) is violated|Action property (\w+) is violated|property (\w+) |Deadlock reached", out)
        got = (m.group(1) or m.group(2) or m.group(3) or "deadlock") if m else ""
        if m and "Deadlock" in m.group(0):
            got = "deadlock"
        ok = bool(m) and bool(re.search(inv, got or ""))
        res.append({"mutant": name, "file": fn, "reported": got, "expected": inv, "ok": ok})
        log(f"[selftest] spec mutant {name}: TLC reports '{got}' (expected {inv}) -> {'ok' if ok else 'MISSED'}")
        shutil.rmtree(d, ignore_errors=True)
    return res


STAGES = ["resolve", "select", "segment", "terminate", "padbyte", "padcw", "ec", "interleave", "blank", "place", "score", "choose", "format", "mask"]


def apalache_mutants(wd):
    """the inductive proofs are not vacuous: a one-line change of the modules they are about must make an obligation fail"""
    from . import props
    res = []
    for name, which, fn, old, new in [
            ("apalache-select-greater", "MaskSelect", "MaskSelect.tla", "IF bestScore < 0 \\/ score[i] < bestScore", "IF bestScore < 0 \\/ score[i] > bestScore"),
            ("apalache-file-ok-after-write-fault", "FileInd", "FileOps.tla", '[] fs.phase \\in {"create_failed", "write_failed"} -> F_ReturnErr(fs)', '[] fs.phase \\in {"create_failed", "write_failed"} -> F_ReturnOk(fs)')]:
        d = os.path.join(wd, "amut_" + name)
        shutil.rmtree(d, ignore_errors=True)
        os.makedirs(d)
        for f in props.APALACHE[which][1]:
            shutil.copy(os.path.join(SPEC, f), d)
        p = os.path.join(d, fn)
        s = open(p).read()
        if old not in s:
            raise ToolError(f"selftest: apalache mutant '{name}' no longer applies")
        open(p, "w").write(s.replace(old, new, 1))
        try:
            props.run_apalache(wd, which, specdir=d)
            ok = False
        except ToolError:
            ok = True
        res.append({"mutant": name, "module": fn, "ok": ok})
        log(f"[selftest] apalache mutant {name}: {'an obligation fails -> ok' if ok else 'ALL DISCHARGED -> MISSED'}")
        shutil.rmtree(d, ignore_errors=True)
    return res


def coverage(wd):
    """Which actions of FastQR.tla TLC actually took (TLC's own -coverage mode is pathologically slow on these operators:
    > 10 min for 4 builds).  The state graph of a minimal configuration is dumped with action labels and read back."""
    d = os.path.join(wd, "cov")
    shutil.rmtree(d, ignore_errors=True)
    os.makedirs(d)
    rc, out = runner.tlc("MC_Pipeline.tla", "MC_Pipeline_cov.cfg", os.path.join(d, "meta"), workers=4, xmx="4g", timeout=900, extra=["-dump", "dot,actionlabels", os.path.join(d, "graph")])
    if "No error has been found" not in out:
        raise ToolError("coverage run of MC_Pipeline_cov.cfg failed:\n" + out[-1500:])
    g = open(os.path.join(d, "graph.dot")).read()
    taken = set(re.findall(r'label="Stage\(1,\\"(\w+)\\"', g))
    for a in ("BuildStart", "Return"):
        if f'label="{a}(' in g:
            taken.add(a)
    outcomes = set(re.findall(r'out \|-> \\"(\w+)\\"', g))
    shutil.rmtree(d, ignore_errors=True)
    missing = [x for x in STAGES + ["BuildStart", "Return"] if x not in taken] + [f"outcome:{o}" for o in ("Ok", "SpecifiedVersion") if o not in outcomes]
    return {"actions": len(taken), "taken": sorted(taken), "outcomes": sorted(outcomes), "never_taken": missing}


def main(tier):
    t0 = time.time()
    wd = os.path.join(WORK, "selftest")
    os.makedirs(wd, exist_ok=True)
    seed = int(os.environ.get("VERIF_SEED", "1") or 1)
    bad = []
    report = {"corruptions": [], "spec_mutants": [], "coverage": None}
    for name, evs, props, desc in corruptions(wd, seed):
        p = os.path.join(wd, f"corrupt_{name}.ndjson")
        _dump(evs, p)
        r = runner.validate_trace(p, os.path.join(wd, "tv_" + name), nshards=1)
        got = sorted({d["property"] for d in r["diags"]})
        ok = bool(set(got) & props)
        report["corruptions"].append({"corruption": name, "what": desc, "diagnostics": got, "expected_any_of": sorted(props), "ok": ok})
        log(f"[selftest] corruption {name}: diagnostics {got} -> {'ok' if ok else 'MISSED'}")
        if not ok:
            bad.append(name)
    report["spec_mutants"] = spec_mutants(wd)
    bad += [m["mutant"] for m in report["spec_mutants"] if not m["ok"]]
    report["apalache_mutants"] = apalache_mutants(wd)
    bad += [m["mutant"] for m in report["apalache_mutants"] if not m["ok"]]
    report["coverage"] = coverage(wd)
    if report["coverage"]["never_taken"]:
        bad.append("coverage:" + ",".join(report["coverage"]["never_taken"]))
    report["wall_s"] = round(time.time() - t0, 1)
    report["ok"] = not bad
    os.makedirs(os.path.join(ROOT, "evidence"), exist_ok=True)
    json.dump(report, open(os.path.join(ROOT, "evidence", "selftest.json"), "w"), indent=1)
    print(f"selftest: {len(report['corruptions'])} trace corruptions, {len(report['spec_mutants'])} specification mutants, coverage of {report['coverage']['actions']} actions; problems: {bad or 'none'}")
    return 0 if not bad else 2
