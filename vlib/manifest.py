"""Generates MANIFEST.json from the property table so that it is always in sync with the checks."""
import json, os
from .runner import ROOT
from . import props

TITLES = {}
for ln in open(os.path.join(ROOT, "properties.jsonl")):
    if ln.strip():
        p = json.loads(ln)
        TITLES[p["id"]] = p["title"]

PENDING_REASON = "check not built yet in this session (planned in DESIGN.md section 7); not claimed until its TLA+ model and trace validation run"


def technique(pid, s):
    base = "explicit TLA+ specification checked with TLC: "
    mcs = sorted({m for t in s["mc"].values() for (m, _) in t})
    parts = []
    if mcs:
        parts.append("bounded exhaustive model checking of " + ", ".join("spec/" + m for m in mcs))
    gens = sorted({props.GEN[sc.split(":")[0]][0] for _, sc, _ in s["scen"] if sc.split(":")[0] in props.GEN})
    if gens:
        parts.append("behaviours exported by TLC from " + ", ".join("spec/" + g for g in gens) + " and replayed on the real crate")
    parts.append("trace validation of events recorded from the real crate against spec/Trace.tla (one TLC run per shard, every event judged)")
    if any(sc.split(":")[0] in props.DISCOVER for _, sc, _ in s["scen"]):
        parts.append("inputs for those events also come from a coverage-guided fuzzer (fuzz/, libFuzzer) used as a generator only - its corpus is built by the harness and judged by TLC")
    if any(sc.split(":")[0] in props.DIFF_SCENS for _, sc, _ in s["scen"]):
        parts.append("inputs on which the tree under test differs from a frozen reference copy of the crate (ref/) on large joint samples are judged the same way - a difference selects an input, it is not a verdict")
    for which in s.get("apalache", []):
        parts.append("Apalache inductive invariant of spec/" + props.APALACHE[which][0] + (" for unbounded scores" if which == "MaskSelect" else " for a rendering of any length"))
    return base + "; ".join(parts)


def build():
    checks = []
    for pid in sorted(props.PROPS):
        s = props.PROPS[pid]
        checks.append({
            "property_id": pid,
            "quick_cmd": f"./check {pid} --tier quick",
            "thorough_cmd": f"./check {pid} --tier thorough",
            "evidence_file": f"/verif/evidence/{pid}.json",
            "replay_cmd_template": f"./check {pid} --replay {{path}}",
            "engine": "tlc-trace-validation",
            "level_claimed": {
                "category": "model_checking",
                "text": props.CLAIMS[pid][0] if pid in props.CLAIMS else s.get("level_text", "TLC explores the TLA+ state machine of the build pipeline exhaustively at small constants with the property as an invariant of the design, and TLC validates every event recorded from the real crate (configuration cells enumerated, payload bytes sampled) against the same specification, evaluating the property's predicate on the implementation's observed output."),
                "design_ref": s.get("ref", f"0 and 7/{pid}"),
            },
            "level_note": (props.CLAIMS[pid][1] + " " if pid in props.CLAIMS else "") + s.get("note", "Trusted: TLC/SANY and the CommunityModules Java overrides; the harness' projection of implementation output to integers; ISO Table 9 (compact form), count widths and mode indicators as typed into spec/QRTables.tla. Bounded: MC constants are small; payload contents are sampled with VERIF_SEED."),
            "technique": technique(pid, s),
        })
    na = [{"property_id": pid, "reason": PENDING_REASON} for pid in sorted(TITLES) if pid not in props.PROPS]
    m = {
        "version": 1,
        "setup_cmd": "./check setup",
        "hooks": {
            "guard": "fast_qr_verif",
            "enable": "RUSTFLAGS='--cfg fast_qr_verif --check-cfg cfg(fast_qr_verif)' (set by ./check when it builds harness/ in its 'hooked' flavour; the 'core' flavour uses the public API only and no cfg; the 'wasm' flavour adds --cfg fast_qr_verif_wasm_only: host build of wasm.rs without the stage re-exports)",
            "baseline_off_cmd": "cd /repo && cargo nextest run --workspace --no-fail-fast --offline",
            "source_commits": ["d364800", "b446e61", "ecbe32f", "77b8758"],
            "add_only": True,
        },
        "engines": [
            {"name": "tlc-trace-validation", "path": "/verif/check", "serves_properties": sorted(props.PROPS),
             "kind_free_text": "python runner: builds harness/ against /repo's working tree, records ndjson events from the real crate, shards them, runs TLC on spec/Trace.tla (one JVM per shard, -workers 1), runs TLC model checking on spec/MC_*.tla, merges DIAG lines into verdicts"},
        ],
        "checks": checks,
        "not_applicable": na,
        "notes": "See DESIGN.md. exit 2 = tool trouble (never a VIOLATION). known_findings.txt lists recorded/fixed genuine defects.",
    }
    with open(os.path.join(ROOT, "MANIFEST.json"), "w") as f:
        json.dump(m, f, indent=1)
    return m
