"""Infrastructure of the fast_qr model-based checks: build the harness from /repo's working tree,
drive it, shard the recorded events, run TLC (trace validation / model checking), collect verdicts."""
import fcntl, json, os, re, shutil, subprocess, sys, time, hashlib
from concurrent.futures import ThreadPoolExecutor

ROOT = os.path.dirname(os.path.dirname(os.path.abspath(__file__)))
SPEC = os.path.join(ROOT, "spec")
HARNESS = os.path.join(ROOT, "harness")
WORK = os.path.join(ROOT, "work")
REPO = "/repo"
GUARD_FLAGS = "--cfg fast_qr_verif --check-cfg cfg(fast_qr_verif) --check-cfg cfg(fast_qr_verif_wasm_only)"
NCPU = os.cpu_count() or 8


class ToolError(Exception):
    """Anything that is not a statement about the implementation: build failure, TLC error, timeout."""


def log(*a):
    print(*a, file=sys.stderr, flush=True)


def sh(cmd, timeout, env=None, cwd=None):
    e = dict(os.environ)
    if env:
        e.update(env)
    try:
        p = subprocess.run(cmd, cwd=cwd, env=e, stdout=subprocess.PIPE, stderr=subprocess.STDOUT, timeout=timeout, text=True, errors="replace")
    except subprocess.TimeoutExpired as ex:
        out = ex.stdout if isinstance(ex.stdout, str) else (ex.stdout or b"").decode("utf8", "replace")
        return 124, out
    return p.returncode, p.stdout


# ---------------------------------------------------------------- harness build
SHIP = {"core": "shipping", "hooked": "hooked-ship", "wasm": "wasm-ship"}      # flavour -> the same flavour compiled as users ship the crate


def build_harness(kind):
    """kind: 'core' (public API only, no cfg), 'hooked' (--cfg fast_qr_verif), 'wasm' (host build of wasm.rs only), or the
    shipping twin of one of them ('shipping', 'hooked-ship', 'wasm-ship': no debug assertions, no overflow checks), or 'bare'
    (public API only, the crate compiled WITHOUT its renderer features; only the scenarios that need no renderer exist in it).
    Rebuilds from /repo's tree."""
    os.makedirs(WORK, exist_ok=True)
    lock = open(os.path.join(WORK, f".build-{kind}.lock"), "w")
    fcntl.flock(lock, fcntl.LOCK_EX)
    try:
        env = {"CARGO_TARGET_DIR": os.path.join(HARNESS, "target", kind), "CARGO_NET_OFFLINE": "true"}
        ship = kind in SHIP.values()
        base = {v: k for k, v in SHIP.items()}.get(kind, kind)
        cmd = ["cargo", "build", "--offline", "--quiet"] + (["--profile", "shipping"] if ship else ["--release"])
        if base == "bare":        # the crate without its `svg` / `image` features: what a user without a renderer compiles
            cmd += ["--no-default-features"]
        if base == "diff":        # core + differential input selection against the frozen reference copy in ref/
            cmd += ["--features", "diffsel"]
        if base == "svgonly":     # the crate with `svg` but without `image`
            cmd += ["--no-default-features", "--features", "svg"]
        if base == "hooked":
            env["RUSTFLAGS"] = GUARD_FLAGS
            cmd += ["--features", "hooks"]
        elif base == "hooked-diff":     # hook build + the reference copy compiled the same way (its wasm facade is needed for the comparison)
            env["RUSTFLAGS"] = GUARD_FLAGS
            cmd += ["--features", "hooks,diffsel"]
        elif base == "wasm":      # host build of wasm.rs only: survives a refactor that breaks the stage re-exports of src/verif.rs
            env["RUSTFLAGS"] = GUARD_FLAGS + " --cfg fast_qr_verif_wasm_only"
            cmd += ["--features", "wasmonly"]
        t0 = time.time()
        rc, out = sh(cmd, 1800, env=env, cwd=HARNESS)
        if rc != 0:
            errs = "\n".join(l for l in out.splitlines() if l.startswith("error") or "-->" in l)[:3000]
            raise ToolError(f"harness ({kind}) does not build against /repo's working tree:\n{errs}")
        log(f"[build] harness {kind} ok in {time.time()-t0:.1f}s")
        return os.path.join(HARNESS, "target", kind, "shipping" if ship else "release", "fqv")
    finally:
        fcntl.flock(lock, fcntl.LOCK_UN)
        lock.close()


# ---------------------------------------------------------------- coverage-guided input discovery (libFuzzer)
FUZZ = os.path.join(ROOT, "fuzz")


def src_hash():
    h = hashlib.sha256()
    for dp, _, fns in sorted(os.walk(os.path.join(REPO, "src"))):
        for fn in sorted(fns):
            if fn.endswith(".rs"):
                h.update(fn.encode()); h.update(open(os.path.join(dp, fn), "rb").read())
    h.update(open(os.path.join(REPO, "Cargo.toml"), "rb").read())
    for dp, _, fns in sorted(os.walk(os.path.join(ROOT, "ref", "src"))):
        for fn in sorted(fns):
            h.update(open(os.path.join(dp, fn), "rb").read())
    for fn in ("scen_diff.rs",):
        h.update(open(os.path.join(HARNESS, "src", fn), "rb").read())
    for fn in sorted(os.listdir(os.path.join(FUZZ, "fuzz_targets"))):
        h.update(open(os.path.join(FUZZ, "fuzz_targets", fn), "rb").read())
    return h.hexdigest()[:20]


def discover(target, seconds, seed, max_len=48):
    """Runs the libFuzzer target `target` of fuzz/ against /repo's working tree for `seconds` and returns the corpus directory.
    The fuzzer is an input generator only (nothing it reports is a verdict).  The corpus is a function of (crate sources, target,
    seed, budget) up to scheduling noise and is reused while those are unchanged.  Any failure here is a ToolError."""
    key = f"{target}-{src_hash()}-{seed}-{seconds}-{max_len}"
    d = os.path.join(WORK, "fuzz", key)
    corpus = os.path.join(d, "corpus")
    if os.path.exists(os.path.join(d, "done")):
        log(f"[discover] {target}: corpus of the identical sources reused ({len(os.listdir(corpus))} inputs)")
        return corpus
    os.makedirs(WORK, exist_ok=True)
    lock = open(os.path.join(WORK, ".build-fuzz.lock"), "w")
    fcntl.flock(lock, fcntl.LOCK_EX)
    try:
        shutil.rmtree(d, ignore_errors=True)
        os.makedirs(corpus)
        env = {"CARGO_NET_OFFLINE": "true"}
        t0 = time.time()
        rc, out = sh(["cargo", "+nightly", "fuzz", "build", "--fuzz-dir", FUZZ, target], 1800, env=env, cwd=FUZZ)
        if rc != 0:
            raise ToolError(f"fuzz target {target} does not build: " + "\n".join(l for l in out.splitlines() if l.startswith("error") or "-->" in l)[:2000])
        rc, out = sh(["cargo", "+nightly", "fuzz", "run", "--fuzz-dir", FUZZ, target, corpus, "--", f"-max_total_time={seconds}", f"-max_len={max_len}",
                      "-use_value_profile=1", f"-seed={seed}", "-print_final_stats=1", f"-artifact_prefix={d}/"], seconds + 600, env=env, cwd=FUZZ)
        m = re.search(r"stat::number_of_executed_units:\s+(\d+)", out)
        if rc != 0 or not m:
            raise ToolError(f"fuzz target {target} did not run to its time limit (rc={rc}): {out[-1500:]}")
        # inputs the fuzzer wrote as crash / timeout artifacts are inputs like any other
        for fn in os.listdir(d):
            if fn.startswith(("crash-", "timeout-", "oom-", "slow-unit-")):
                shutil.copy(os.path.join(d, fn), os.path.join(corpus, fn))
        open(os.path.join(d, "done"), "w").write(m.group(1))
        log(f"[discover] {target}: {m.group(1)} executions, {len(os.listdir(corpus))} inputs kept, {time.time()-t0:.1f}s")
        return corpus
    finally:
        fcntl.flock(lock, fcntl.LOCK_UN)
        lock.close()


def drive(binary, scenario, seed, tier, out, extra=(), timeout=3600):
    cmd = [binary, scenario, "--seed", str(seed), "--tier", tier, "--out", out, *extra]
    t0 = time.time()
    scratch = os.path.join(WORK, "scratch")
    os.makedirs(scratch, exist_ok=True)
    rc, o = sh(cmd, timeout, env={"FQV_SCRATCH": scratch})
    if rc != 0:
        raise ToolError(f"driver {scenario} failed (rc={rc}): {o[-2000:]}")
    log(f"[drive] {scenario} seed={seed} tier={tier}: {time.time()-t0:.1f}s")


# ---------------------------------------------------------------- TLC
JAVA_OPTS = "-Xss1g -XX:ParallelGCThreads=2 -XX:CICompilerCount=2"


def tlc(module, cfg, metadir, env=None, workers=1, xmx="3g", timeout=1800, extra=()):
    shutil.rmtree(metadir, ignore_errors=True)
    os.makedirs(metadir, exist_ok=True)
    e = {"JAVA_TOOL_OPTIONS": f"{JAVA_OPTS} -Xmx{xmx}"}
    if env:
        e.update(env)
    cmd = ["tlc", "-workers", str(workers), "-metadir", metadir, "-cleanup", "-noGenerateSpecTE", *extra, "-config", cfg, module]
    rc, out = sh(cmd, timeout, env=e, cwd=SPEC)
    shutil.rmtree(metadir, ignore_errors=True)
    return rc, out


STATS_RE = re.compile(r"(\d+) states generated, (\d+) distinct states found")


def parse_tlc(out):
    r = {"diags": [], "post": None, "notes": [], "replays": [], "states": 0, "distinct": 0, "errors": [], "alphabet": ""}
    for line in out.splitlines():
        if line.startswith('<<"DIAG"'):
            m = re.search(r'<<"DIAG", "(.*)">>$', line)
            if m:
                try:
                    r["diags"].append(json.loads(m.group(1).replace('\\"', '"').replace("\\\\", "\\")))
                except Exception:
                    r["errors"].append("unparsable DIAG: " + line[:300])
        elif line.startswith('<<"POST"'):
            m = re.search(r'<<"POST", (\d+), (\d+), (\d+)>>', line)
            if m:
                r["post"] = tuple(int(x) for x in m.groups())
        elif line.startswith('<<"NOTE"'):
            m = re.search(r'<<"NOTE", "(.*)">>$', line)
            if m:
                try:
                    r["notes"].append(json.loads(m.group(1).replace('\\"', '"').replace("\\\\", "\\")))
                except Exception:
                    pass
        elif line.startswith('<<"REPLAY"'):
            m = re.search(r'<<"REPLAY", "(.*)">>$', line)
            if m:
                try:
                    r["replays"].append(json.loads(m.group(1).replace('\\"', '"').replace("\\\\", "\\")))
                except Exception:
                    r["errors"].append("unparsable REPLAY: " + line[:300])
        elif line.startswith('<<"ALPHABET"'):
            m = re.search(r'<<"ALPHABET", "(.*)">>$', line)
            if m:
                r["alphabet"] = m.group(1).replace('\\"', '"').replace("\\\\", "\\")
        elif line.startswith("Error:") or "Exception" in line or "java.lang" in line:
            r["errors"].append(line[:500])
        m = STATS_RE.search(line)
        if m:
            r["states"], r["distinct"] = int(m.group(1)), int(m.group(2))
    return r


# ---------------------------------------------------------------- trace validation
def shard_events(lines, nshards):
    """Greedy balance by line length (a proxy for symbol size); same-payload groups stay together and in order;
    inside a shard events are sorted by symbol size so that the layout is computed once per version."""
    units = {}
    for ln in lines:
        m = re.search(r'"grp":(\d+)', ln)
        g = int(m.group(1)) if m else 0
        idm = re.search(r'"id":(\d+)', ln)
        i = int(idm.group(1)) if idm else 0
        key = ("g", g) if g else ("e", i)
        units.setdefault(key, []).append((i, ln))
    ulist = []
    for key, evs in units.items():
        evs.sort()
        cost = sum(len(l) for _, l in evs) + 2000 * len(evs)
        sm = re.search(r'"size":(\d+)', evs[0][1])
        ulist.append((cost, int(sm.group(1)) if sm else 0, evs[0][0], [l for _, l in evs]))
    ulist.sort(key=lambda u: -u[0])
    nshards = max(1, min(nshards, len(ulist)))
    shards = [[0, []] for _ in range(nshards)]
    for u in ulist:
        s = min(shards, key=lambda x: x[0])
        s[0] += u[0]
        s[1].append(u)
    res = []
    for _, us in shards:
        us.sort(key=lambda u: (u[1], u[2]))
        res.append([l for u in us for l in u[3]])
    return [s for s in res if s]


def validate_trace(events_path, workdir, nshards=None, timeout=3000, module="Trace.tla", cfg="Trace.cfg", xmx="3g"):
    """Runs the trace specification over the events; returns dict(events, diags, shards, wall)."""
    events_path, workdir = os.path.abspath(events_path), os.path.abspath(workdir)
    raw = open(events_path).read()
    lines = [l for l in raw.split("\n") if l.strip()]
    if not lines:
        raise ToolError("driver produced no events")
    # TLC's verdict is a pure function of (trace, specification): an identical trace already judged by the identical
    # specification is not judged again (the driver itself is re-run against /repo's tree on every check)
    h = hashlib.sha256(raw.encode())
    for fn in sorted(os.listdir(SPEC)):
        if fn.endswith(".tla") or fn == cfg:
            h.update(fn.encode())
            h.update(open(os.path.join(SPEC, fn), "rb").read())
    cpath = os.path.join(WORK, "cache", h.hexdigest() + ".json")
    if os.path.exists(cpath) and not os.environ.get("VERIF_NO_CACHE"):
        try:
            r = json.load(open(cpath))
            r["cached"] = True
            log(f"[tv] {len(lines)} events: verdict of the identical trace reused ({len(r['diags'])} diagnostics)")
            return r
        except Exception:
            pass
    nshards = nshards or max(1, NCPU - 2)
    shards = shard_events(lines, nshards)
    os.makedirs(workdir, exist_ok=True)
    paths = []
    for i, s in enumerate(shards):
        p = os.path.join(workdir, f"shard_{i:02d}.ndjson")
        with open(p, "w") as f:
            f.write("\n".join(s) + "\n")
        paths.append((p, len(s)))
    t0 = time.time()

    def one(arg):
        i, (p, n) = arg
        rc, out = tlc(module, cfg, os.path.join(workdir, f"meta_{i:02d}"), env={"TRACE": p}, timeout=timeout, xmx=xmx)
        r = parse_tlc(out)
        r["rc"], r["n"], r["path"] = rc, n, p
        if rc == 124:
            r["errors"].append(f"TLC timed out after {timeout}s on {p}")
        if r["post"] is None or r["post"][0] != n + 1 or r["post"][1] != n:
            r["errors"].append(f"shard {p}: trace not consumed (post={r['post']}, events={n}); tail: " + out[-1500:])
        elif r["post"][2] != len(r["diags"]):
            r["errors"].append(f"shard {p}: diagnostic counter {r['post'][2]} != DIAG lines {len(r['diags'])}")
        return r

    with ThreadPoolExecutor(max_workers=len(paths)) as ex:
        results = list(ex.map(one, enumerate(paths)))
    errs = [e for r in results for e in r["errors"]]
    if errs:
        raise ToolError("TLC trouble during trace validation:\n" + "\n".join(errs[:5]))
    diags = [d for r in results for d in r["diags"]]
    notes = [d for r in results for d in r["notes"]]
    log(f"[tv] {len(lines)} events on {len(paths)} shards: {len(diags)} diagnostics, {time.time()-t0:.1f}s")
    res = {"events": len(lines), "diags": diags, "notes": notes, "shards": len(paths), "wall": time.time() - t0,
           "states": sum(r["states"] for r in results), "distinct": sum(r["distinct"] for r in results)}
    os.makedirs(os.path.dirname(cpath), exist_ok=True)
    tmp = cpath + f".{os.getpid()}.tmp"
    json.dump(res, open(tmp, "w"))
    os.replace(tmp, cpath)
    shutil.rmtree(workdir, ignore_errors=True)
    return res


# ---------------------------------------------------------------- model checking
def spec_hash(*names):
    h = hashlib.sha256()
    for fn in sorted(os.listdir(SPEC)):
        if fn.endswith(".tla") or fn in names:
            h.update(fn.encode())
            h.update(open(os.path.join(SPEC, fn), "rb").read())
    return h


def model_check(module, cfg, name, workers=8, timeout=7200, xmx="8g", extra=()):
    t0 = time.time()
    # model checking reads nothing from /repo: its result is a pure function of the specification files and the
    # configuration, so an identical run is not repeated (several properties share MC_Pipeline / MC_Lemmas / MC_Render)
    h = spec_hash(cfg)
    h.update(("|".join([module, cfg, *extra])).encode())
    cpath = os.path.join(WORK, "cache", "mc_" + h.hexdigest() + ".json")
    if os.path.exists(cpath) and not os.environ.get("VERIF_NO_CACHE"):
        try:
            r = json.load(open(cpath))
            r["cached"] = True
            log(f"[mc] {module} {cfg}: result of the identical specification reused ({r['states']} states, {r['distinct']} distinct, originally {r['wall']:.1f}s)")
            return r
        except Exception:
            pass
    rc, out = tlc(module, cfg, os.path.join(WORK, "mc_" + name), workers=workers, timeout=timeout, xmx=xmx, extra=extra)
    r = parse_tlc(out)
    r["rc"], r["wall"], r["out"] = rc, time.time() - t0, out
    ok = rc == 0 and "Model checking completed. No error has been found." in out
    if not ok:
        tail = "\n".join(out.splitlines()[-40:])
        raise ToolError(f"model checking {module}/{cfg} did not complete cleanly (rc={rc}); the specification contradicts itself or TLC failed:\n{tail}")
    log(f"[mc] {module} {cfg}: {r['states']} states, {r['distinct']} distinct, {r['wall']:.1f}s")
    os.makedirs(os.path.dirname(cpath), exist_ok=True)
    tmp = cpath + f".{os.getpid()}.tmp"
    json.dump({k: v for k, v in r.items() if k != "out"}, open(tmp, "w"))
    os.replace(tmp, cpath)
    return r
