"""Enumerated domains: for every dimension a check claims to enumerate completely, the runner counts what the driver actually
produced and compares it with the expected cardinality.  A driver that silently skipped cases makes the check exit 2."""
import json, re
from collections import Counter, defaultdict


def _tags(lines):
    c = Counter()
    for l in lines:
        m = re.search(r'"tag":"([^"]*)"', l)
        if m:
            c[m.group(1)] += 1
    return c


def _need(out, name, found, expected, note=""):
    out[name] = {"enumerated": found, "expected": expected, "complete": found == expected, "note": note}


def check(pid, tier, lines, gen_counts):
    """returns dict dimension -> {enumerated, expected, complete}; gen_counts: scenario -> behaviours exported by TLC"""
    t = _tags(lines)
    thorough = tier == "thorough"
    out = {}
    pref = lambda p: {k for k in t if k.startswith(p)}
    if pid in ("C01", "C02", "C03", "C06", "C07", "C15"):
        cells = {tuple(k.split(":")[1:3]) for k in pref("cell:")}
        _need(out, "(version, level) cells built through the public API", len(cells), 160)
    if pid in ("C01", "C06"):
        _need(out, "every payload length 0..%d x 3 modes, fully decoded" % (1200 if thorough else 260), sum(v for k, v in t.items() if k.startswith("length:")), 3 * ((1200 if thorough else 260) + 1))
    if pid == "C02":
        _need(out, "(version, level) cells with a corruption pattern", len({tuple(k.split(":")[1:3]) for k in pref("corrupt:")}), 160)
    if pid in ("C02", "C03", "C04", "C06") and pref("tables:"):
        _need(out, "(version, level) cells of the hard-coded tables", len(pref("tables:")), 160)
    if pid in ("C03", "C15") and pref("blank:"):
        _need(out, "blank symbols (versions)", len(pref("blank:")), 40)
    if pid == "C04":
        cells = {tuple(k.split(":")[1:4]) for k in pref("fmt:")}
        _need(out, "forced (version, level, mask) cells", len(cells), 1280 if thorough else 320)
        _need(out, "versions with forced format cells", len({c[0] for c in cells}), 40)
        _need(out, "(level, mask) pairs", len({c[1:] for c in cells}), 32)
        _need(out, "forced/automatic combinations of the four options", len(pref("optcombo:")), 16)
    if pid == "C05":
        _need(out, "capacity thresholds (mode, level, version) x {cap-1, cap, cap+1}", len(pref("thr:")), 1440)
        _need(out, "forced versions (mode, level, version) x 3 lengths", len(pref("forced:")), 1440)
        _need(out, "thresholds of the default level (mode, version) x {cap-1, cap, cap+1}", len(pref("thrdefault:")), 360)
        runs = defaultdict(int)
        for l in lines:
            if '"ev":"VersionGetRun"' in l:
                e = json.loads(l)
                runs[e["tag"]] += e["to"] - e["from"] + 1
        if runs:
            _need(out, "lengths 0..7200 x 3 modes x 4 levels through the version lookup", sum(runs.values()), 12 * 7201, "run-length encoded, both ends of every run judged")
    if pid == "C06" and pref("enc:"):
        _need(out, "(version, level, mode) cells of the encoder", len(pref("enc:")), 480)
    if pid == "C07" and pref("poly:"):
        _need(out, "(version, level) cells of the generator accessor", len(pref("poly:")), 160)
        _need(out, "generator degrees on the single-byte basis", len(pref("div:")), 13)
        nb = sum(v for k, v in t.items() if k.startswith("div:"))
        _need(out, "(degree, byte value) basis vectors x 123 powers each", nb, 13 * (255 if thorough else 8))
    if pid == "C08":
        cells = {tuple(k.split(":")[1:4]) for k in pref("mask:")}
        _need(out, "versions x {8 forced masks, automatic}", len({(c[0], c[2]) for c in cells}), 360)
        if pref("maskop:"):
            _need(out, "mask sweeps alone: (version, mask)", len({tuple(k.split(":")[1:3]) for k in pref("maskop:")}), 320)
    if pid == "C09":
        _need(out, "byte values x (length <= 4, position, filler) cells", sum(v for k, v in t.items() if k.startswith("byte:")), 256 * 20)
        _need(out, "byte values x (length, position, filler) cells of longer strings", sum(v for k, v in t.items() if k.startswith("bytelong:")), 256 * 40)
        maxlen = 8 if thorough else 6
        _need(out, "class patterns up to the length bound", sum(v for k, v in t.items() if k.startswith("pattern:")), sum(3 ** k for k in range(maxlen + 1)))
    if pid == "C10":
        _need(out, "combinations of {unset, smallest, largest} per option", len(pref("combo:")), 81)
        _need(out, "byte values as the only content x 3 lengths", sum(v for k, v in t.items() if k.startswith("mono:")), 768)
        _need(out, "empty input x option combinations x mode choices", sum(v for k, v in t.items() if k.startswith("empty:")), 108)
        if thorough:
            _need(out, "payload lengths 0..8000", sum(v for k, v in t.items() if k.startswith("len:")), 8001)
    if pid == "C12":
        _need(out, "image strings of the pool", len(pref("svgimg:")), 88)
        if thorough:
            _need(out, "(version, shape) cells", len(pref("svgver:")), 240)
    if pid == "C16":
        _need(out, "symbol sizes", len(pref("text:")), 40)
    if pid == "C18":
        _need(out, "default frames: (frame shape, margin 0..16) sweeps over all 40 versions", len({tuple(k.split(":")[1:3]) for k in pref("frame:") if int(k.split(":")[2]) <= 16}), 51)
    if pid == "C19":
        _need(out, "TLC-exported fault behaviours replayed", len({k.split(":", 2)[2] for k in pref("file:")}), gen_counts.get("fileio", 0))
    if pid == "C19":
        _need(out, "TLC-exported pairs of concurrent calls replayed", len({k.split(":")[1] for k in pref("fileconc:")}), gen_counts.get("fileconc", 0))
    if pid == "C17":
        _need(out, "TLC-exported setter programs replayed", sum(v for k, v in t.items() if k.startswith("wasmgen:")), gen_counts.get("wasm", 0))
    if pid == "C14":
        nh = len({re.search(r'"grp":(\d+)', l).group(1) for l in lines if '"tag":"hnew"' in l and '"tid":0' in l and '"bid":1,' in l})
        _need(out, "TLC-exported histories replayed", nh, sum(v for k, v in gen_counts.items() if k.startswith("histories")))
        _need(out, "TLC-exported renderer sessions replayed", len({re.search(r'"session":(\d+)', l).group(1) for l in lines if '"tag":"sessiongen:' in l}), gen_counts.get("sessions", 0))
    return out
